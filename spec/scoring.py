"""Duplicate-bridge scoring oracles, written from Law 77/78 of the Laws of Duplicate Bridge and the
WBF IMP scale -- independent of the repository's tables and of its test file."""
from pyvc.speclib import count, ite

# lower bound of the point difference for 1, 2, ... 24 IMPs (official WBF scale)
IMP_BOUNDS = (20, 50, 90, 130, 170, 220, 270, 320, 370, 430, 500, 600, 750, 900, 1100, 1300, 1500,
              1750, 2000, 2250, 2500, 3000, 3500, 4000)


def imps_of_magnitude(a):
    """IMPs for a non-negative point difference a: the number of scale bounds reached."""
    return count(IMP_BOUNDS, lambda b: a >= b)


def imps(d):
    return ite(d >= 0, imps_of_magnitude(abs(d)), -imps_of_magnitude(abs(d)))

"""Duplicate-bridge scoring oracles, written from Law 77/78 of the Laws of Duplicate Bridge and the
WBF IMP scale -- independent of the repository's tables and of its test file."""
from pyvc.speclib import count, ite

# lower bound of the point difference for 1, 2, ... 24 IMPs (official WBF scale)
IMP_BOUNDS = (20, 50, 90, 130, 170, 220, 270, 320, 370, 430, 500, 600, 750, 900, 1100, 1300, 1500,
              1750, 2000, 2250, 2500, 3000, 3500, 4000)


def imps_of_magnitude(a):
    """IMPs for a non-negative point difference a: the number of scale bounds reached."""
    return count(IMP_BOUNDS, lambda b: a >= b)


def imps(d):
    return ite(d >= 0, imps_of_magnitude(abs(d)), -imps_of_magnitude(abs(d)))


# ---- Law 77: duplicate bridge scoring ----------------------------------------------------------
# dbl: 0 undoubled, 1 doubled, 2 redoubled.  denom_kind: 0 minor, 1 major, 2 no-trump.

def times_dbl(v, dbl):
    return ite(dbl == 0, v, ite(dbl == 1, 2 * v, 4 * v))


def trick_score(level, kind):
    """Points for the odd tricks bid and made, undoubled."""
    return ite(kind == 0, 20 * level, ite(kind == 1, 30 * level, 40 + 30 * (level - 1)))


def made_score(level, kind, dbl, vul, over):
    below = times_dbl(trick_score(level, kind), dbl)
    game = ite(below >= 100, ite(vul, 500, 300), 50)
    slam = ite(level == 6, ite(vul, 750, 500), ite(level == 7, ite(vul, 1500, 1000), 0))
    insult = ite(dbl == 0, 0, ite(dbl == 1, 50, 100))
    per_over_undoubled = ite(kind == 0, 20 * over, 30 * over)
    overs = ite(dbl == 0, per_over_undoubled,
                ite(dbl == 1, ite(vul, 200 * over, 100 * over), ite(vul, 400 * over, 200 * over)))
    return below + game + slam + insult + overs


def down_score(dbl, vul, down):
    """Penalty (positive number) for `down` undertricks."""
    undoubled = ite(vul, 100 * down, 50 * down)
    # doubled, not vulnerable: 100, then 200 for the 2nd and 3rd, then 300 each
    dnv = 100 + 200 * min(down - 1, 2) + 300 * max(down - 3, 0)
    # doubled, vulnerable: 200, then 300 each
    dv = 200 + 300 * (down - 1)
    doubled = ite(vul, dv, dnv)
    return ite(dbl == 0, undoubled, ite(dbl == 1, doubled, 2 * doubled))


def dup_score(level, kind, dbl, vul, tricks):
    need = level + 6
    return ite(tricks >= need, made_score(level, kind, dbl, vul, tricks - need),
               -down_score(dbl, vul, need - tricks))


def status(x, xx):
    """Effective doubling status of a contract with flags x / xx: redoubled whenever xx."""
    return ite(xx, 2, ite(x, 1, 0))

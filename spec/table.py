"""Table geometry, the order of calls and card notation -- written from the Laws of Duplicate
Bridge (Laws 17-19 order of calls / rotation) and the README, as explicit tables."""
from bridge_env import Bid, Pair, Player, Suit, Vul
from pyvc.speclib import ite, seq_get

N, E, S, W = Player.N, Player.E, Player.S, Player.W

# rotation is clockwise: North -> East -> South -> West -> North
LEFT = {N: E, E: S, S: W, W: N}
RIGHT = {N: W, E: N, S: E, W: S}
PARTNER = {N: S, E: W, S: N, W: E}
SIDE = {N: Pair.NS, E: Pair.EW, S: Pair.NS, W: Pair.EW}
OTHER_SIDE = {Pair.NS: Pair.EW, Pair.EW: Pair.NS}
FORMAL = {N: 'North', E: 'East', S: 'South', W: 'West'}
SEAT_LETTER = {N: 'N', E: 'E', S: 'S', W: 'W'}
SEAT_NO = {N: 0, E: 1, S: 2, W: 3}
SEAT_OF_LETTER = {'N': N, 'E': E, 'S': S, 'W': W}
SEAT_OF_NO = (N, E, S, W)
SEAT_OF_FORMAL = {'North': N, 'East': E, 'South': S, 'West': W}


def left(p):
    return LEFT[p]


def right(p):
    return RIGHT[p]


def partner(p):
    return PARTNER[p]


def side(p):
    return SIDE[p]


def other_side(s):
    return OTHER_SIDE[s]


def same_side(p, q):
    return SIDE[p] is SIDE[q]


def rot(p, k):
    """Seat k places clockwise from p (k >= 0)."""
    return SEAT_OF_NO_get((SEAT_NO[p] + k) % 4)


def SEAT_OF_NO_get(i):
    return ite(i == 0, N, ite(i == 1, E, ite(i == 2, S, W)))


def side_vulnerable(s, vul):
    """Is side s vulnerable on a board with vulnerability vul."""
    return (vul is Vul.BOTH) or (s is Pair.NS and vul is Vul.NS) or (s is Pair.EW and vul is Vul.EW)


# ---- calls: 1C < 1D < 1H < 1S < 1NT < 2C < ... < 7NT, then Pass, Double, Redouble -------------
DENOMS = (Suit.C, Suit.D, Suit.H, Suit.S, Suit.NT)
DENOM_TEXT = {Suit.C: 'C', Suit.D: 'D', Suit.H: 'H', Suit.S: 'S', Suit.NT: 'NT'}
BIDS_IN_ORDER = tuple(getattr(Bid, f'{DENOM_TEXT[d]}{l}') for l in range(1, 8) for d in DENOMS)
CALLS_IN_ORDER = BIDS_IN_ORDER + (Bid.Pass, Bid.X, Bid.XX)
CALL_INDEX = {c: i for i, c in enumerate(CALLS_IN_ORDER)}
LEVEL = {c: (i // 5 + 1 if i < 35 else None) for i, c in enumerate(CALLS_IN_ORDER)}
DENOM = {c: (DENOMS[i % 5] if i < 35 else None) for i, c in enumerate(CALLS_IN_ORDER)}
CALL_TEXT = {c: (f'{i // 5 + 1}{DENOM_TEXT[DENOMS[i % 5]]}' if i < 35 else
                 ('Pass', 'X', 'XX')[i - 35]) for i, c in enumerate(CALLS_IN_ORDER)}
BID_OF = {(l, d): getattr(Bid, f'{DENOM_TEXT[d]}{l}') for l in range(1, 8) for d in DENOMS}


def call_index(c):
    return CALL_INDEX[c]


def is_bid(c):
    """A real bid (not pass / double / redouble)."""
    return CALL_INDEX[c] < 35


def level(c):
    return LEVEL[c]


def denom(c):
    return DENOM[c]


def call_text(c):
    return CALL_TEXT[c]


def bid_of(lv, d):
    return BID_OF[(lv, d)]


# ---- cards ------------------------------------------------------------------------------------
RANK_TEXT = {2: '2', 3: '3', 4: '4', 5: '5', 6: '6', 7: '7', 8: '8', 9: '9', 10: 'T', 11: 'J',
             12: 'Q', 13: 'K', 14: 'A'}
RANK_OF_TEXT = {v: k for k, v in RANK_TEXT.items()}
SUIT_NO = {Suit.C: 0, Suit.D: 1, Suit.H: 2, Suit.S: 3}
SUIT_TEXT = {Suit.C: 'C', Suit.D: 'D', Suit.H: 'H', Suit.S: 'S', Suit.NT: 'NT'}


def card_no(rank, suit):
    """Index of a card: clubs 2..A = 0..12, diamonds 13..25, hearts 26..38, spades 39..51."""
    return SUIT_NO[suit] * 13 + rank - 2


def rank_text(r):
    return RANK_TEXT[r]


def card_text(rank, suit):
    return SUIT_TEXT[suit] + RANK_TEXT[rank]


VUL_TEXT = {Vul.NONE: 'None', Vul.NS: 'NS', Vul.EW: 'EW', Vul.BOTH: 'Both'}
VUL_PBN = {Vul.NONE: 'None', Vul.NS: 'NS', Vul.EW: 'EW', Vul.BOTH: 'All'}
VUL_OF_TEXT = {'None': Vul.NONE, 'Love': Vul.NONE, '-': Vul.NONE, 'NS': Vul.NS, 'EW': Vul.EW,
               'Both': Vul.BOTH, 'All': Vul.BOTH}
SUIT_NO5 = {Suit.C: 0, Suit.D: 1, Suit.H: 2, Suit.S: 3, Suit.NT: 4}
CALL_OF_TEXT = {v: k for k, v in CALL_TEXT.items()}
from bridge_env import Card as _Card
SUIT_OF_NO = (Suit.C, Suit.D, Suit.H, Suit.S)
CARD_OF_TEXT = {SUIT_TEXT[s] + RANK_TEXT[r]: _Card(r, s) for s in SUIT_OF_NO for r in range(2, 15)}
ALL_CARDS = tuple(_Card(r, s) for s in SUIT_OF_NO for r in range(2, 15))   # in index order


def card_of_no(x):
    """The card with index x (0..51)."""
    return seq_get(ALL_CARDS, x)

"""PBN deal notation (PBN 2.1, section 3.4.11 "Deal"), written from the standard and the statement
of C14 -- independent of the repository's regular expressions.

    <first>:<hand> <hand> <hand> <hand>      hands clockwise from <first>
    <hand> = <spades>.<hearts>.<diamonds>.<clubs>  ranks high to low, a void is an empty field
           | -                                      unknown hand
"""
from bridge_env import Card, Hands, Player, Suit
import spec.table as G

SUITS_PBN = (Suit.S, Suit.H, Suit.D, Suit.C)
RANKS_HIGH_TO_LOW = tuple(range(14, 1, -1))


def hand_text(hand):
    """Canonical PBN text of a hand (a set of cards): '-' for an unknown (empty) hand."""
    if len(hand) == 0:
        return '-'
    return '.'.join([''.join([G.RANK_TEXT[r] for r in RANKS_HIGH_TO_LOW if Card(r, s) in hand])
                     for s in SUITS_PBN])


def deal_text(hands, first):
    """Canonical PBN deal text written from seat `first`."""
    p1 = G.left(first)
    p2 = G.left(p1)
    p3 = G.left(p2)
    return G.SEAT_LETTER[first] + ':' + hand_text(hands[first]) + ' ' + hand_text(hands[p1]) + \
        ' ' + hand_text(hands[p2]) + ' ' + hand_text(hands[p3])


def parse_hand(text):
    """The set of cards a canonical hand text denotes (a plain field-by-field reader)."""
    cards = set()
    if text == '-':
        return cards
    fields = text.split('.')
    for k in range(4):
        for ch in fields[k]:
            cards.add(Card(G.RANK_OF_TEXT[ch], SUITS_PBN[k]))
    return cards


def parse_deal(text):
    """{seat: set of cards} denoted by a canonical deal text."""
    first = G.SEAT_OF_LETTER[text[0]]
    parts = text[2:].split(' ')
    out = {}
    p = first
    for k in range(4):
        out[p] = parse_hand(parts[k])
        p = G.left(p)
    return out


def first_seat(text):
    return G.SEAT_OF_LETTER[text[0]]


# ---- export format: a board result as a PBN game (PBN 2.1, 3.4 "mandatory tag set") -------------

MANDATORY_TAGS = ('Event', 'Site', 'Date', 'Board', 'West', 'North', 'East', 'South', 'Dealer',
                  'Vulnerable', 'Deal', 'Scoring', 'Declarer', 'Contract', 'Result')


def tag_line(tag, value):
    return '[' + tag + ' "' + value + '"]\n'


def export_values(event, site, date_text, board_num, west, north, east, south, dealer, deal,
                  scoring_name, contract, taken_tricks):
    """The fifteen values in the order of MANDATORY_TAGS.  Vulnerability in PBN spelling; a
    passed-out board has an empty declarer and result and the contract 'Pass'."""
    import spec.jsonlog as J
    passed = J.is_passed_out(contract)
    return (event, site, date_text, str(board_num), west, north, east, south,
            G.SEAT_LETTER[dealer], G.VUL_PBN[contract.vul], deal_text(deal, dealer), scoring_name,
            '' if passed else G.SEAT_LETTER[contract.declarer],
            'Pass' if passed else J.contract_text(contract),
            '' if passed else str(taken_tricks))


def export_game_lines(values):
    """A game in export format: the fifteen tag pairs, then the empty line that ends the game."""
    return [tag_line(t, v) for t, v in zip(MANDATORY_TAGS, values)] + ['\n']

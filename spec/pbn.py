"""PBN deal notation (PBN 2.1, section 3.4.11 "Deal"), written from the standard and the statement
of C14 -- independent of the repository's regular expressions.

    <first>:<hand> <hand> <hand> <hand>      hands clockwise from <first>
    <hand> = <spades>.<hearts>.<diamonds>.<clubs>  ranks high to low, a void is an empty field
           | -                                      unknown hand
"""
from bridge_env import Card, Hands, Player, Suit
import spec.table as G

SUITS_PBN = (Suit.S, Suit.H, Suit.D, Suit.C)
RANKS_HIGH_TO_LOW = tuple(range(14, 1, -1))


def hand_text(hand):
    """Canonical PBN text of a hand (a set of cards): '-' for an unknown (empty) hand."""
    if len(hand) == 0:
        return '-'
    return '.'.join([''.join([G.RANK_TEXT[r] for r in RANKS_HIGH_TO_LOW if Card(r, s) in hand])
                     for s in SUITS_PBN])


def deal_text(hands, first):
    """Canonical PBN deal text written from seat `first`."""
    p1 = G.left(first)
    p2 = G.left(p1)
    p3 = G.left(p2)
    return G.SEAT_LETTER[first] + ':' + hand_text(hands[first]) + ' ' + hand_text(hands[p1]) + \
        ' ' + hand_text(hands[p2]) + ' ' + hand_text(hands[p3])


def parse_hand(text):
    """The set of cards a canonical hand text denotes (a plain field-by-field reader)."""
    cards = set()
    if text == '-':
        return cards
    fields = text.split('.')
    for k in range(4):
        for ch in fields[k]:
            cards.add(Card(G.RANK_OF_TEXT[ch], SUITS_PBN[k]))
    return cards


def parse_deal(text):
    """{seat: set of cards} denoted by a canonical deal text."""
    first = G.SEAT_OF_LETTER[text[0]]
    parts = text[2:].split(' ')
    out = {}
    p = first
    for k in range(4):
        out[p] = parse_hand(parts[k])
        p = G.left(p)
    return out


def first_seat(text):
    return G.SEAT_OF_LETTER[text[0]]

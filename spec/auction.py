"""The auction according to the Laws of Duplicate Bridge (Laws 17-22), written from the statements
of C01-C03 -- not from the repository's code.

Position of an auction in progress:
    lb   last bid (a real bid) or None        lbr  the seat that made it, or None
    x    a double of lb stands                 xx   a redouble of it stands
    caller  the seat whose turn it is
All functions are expression-style (ite / and / or) so that the evaluator never forks on them.
"""
from bridge_env import Bid, Pair, Player, Suit
from pyvc.speclib import conj, disj, implies, ite, opt_or, seq_get, seq_len
import spec.table as G

PASS, DBL, RDBL = Bid.Pass, Bid.X, Bid.XX


def legal(lb, lbr, x, xx, caller, call):
    """May `caller` make `call` in this position?  (C01)

    a pass always; a bid only if it outranks the last bid; a double only of an opponent's last bid
    while it is undoubled; a redouble only of an opponent's double of one's own side's last bid."""
    i = G.call_index(call)
    opp_bid = conj(lb is not None, not G.same_side(caller, opt_or(lbr, Player.N)))
    own_bid = conj(lb is not None, G.same_side(caller, opt_or(lbr, Player.N)))
    return ite(i < 35, disj(lb is None, i > G.call_index(opt_or(lb, Bid.C1))),
               ite(call is PASS, True,
                   ite(call is DBL, conj(opp_bid, not x, not xx),
                       conj(own_bid, x, not xx))))


def ends(h, n, call):
    """Does `call`, made after the n calls h[0..n), end the auction?  (C02)

    Exactly when it is the fourth of four opening passes, or the third of three consecutive passes
    that follow a bid, double or redouble."""
    p1 = conj(n >= 1, seq_get(h, n - 1) is PASS)
    p2 = conj(n >= 2, seq_get(h, n - 2) is PASS)
    p3 = conj(n >= 3, seq_get(h, n - 3) is PASS)
    four_opening = conj(n == 3, p1, p2, p3)
    three_after = conj(n >= 3, p1, p2, seq_get(h, n - 3) is not PASS)
    return conj(call is PASS, disj(four_opening, three_after))


def is_over(h, n):
    """Is the auction consisting of exactly the calls h[0..n) over?  (C02, as a state predicate)"""
    last3 = conj(n >= 4, seq_get(h, n - 1) is PASS, seq_get(h, n - 2) is PASS,
                 seq_get(h, n - 3) is PASS)
    return conj(last3, disj(conj(n == 4, seq_get(h, 0) is PASS), seq_get(h, n - 4) is not PASS))


def status_after(x, xx, call):
    """(x', xx') after a legal call: a bid clears both, a double sets x, a redouble sets xx."""
    is_bid = G.call_index(call) < 35
    return (ite(is_bid, False, disj(x, call is DBL)), ite(is_bid, False, disj(xx, call is RDBL)))


def first_after(first, side, denom, caller, call):
    """The entry (side, denom) of the first-to-name table after `caller` makes the legal `call`:
    a side's first naming of a denomination is remembered and never replaced."""
    names_it = conj(G.call_index(call) < 35, G.side(caller) is side,
                    G.denom(opt_or_bid(call)) is denom)
    return ite(conj(names_it, first is None), caller, first)


def opt_or_bid(call):
    return call

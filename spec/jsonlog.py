"""The JSON game-log / board-settings formats, written from README.md ("Log format") and the
published schemas -- independent of the writer's code.

A record is a JSON object:
  players      {"N": name, "E": name, "S": name, "W": name}
  board_id     string
  dealer       "N" | "E" | "S" | "W"
  deal         {"N": [card texts ascending], "E": [...], "S": [...], "W": [...]}
  vulnerability "None" | "NS" | "EW" | "Both"
  bid_history  [call texts]            contract  "<level><denomination>[X|XX]" | "Passed_out"
  declarer     seat letter | null      play_history [{"leader": seat letter, "cards": [4 card texts]}] | null
  taken_trick  int | null              score_type string       scores {"NS": int, "EW": int}
  dda          optional {"N": {"C": int, ...}, ...}
"""
from bridge_env import Bid, Pair, Player, Suit, Vul
import spec.table as G

N, E, S, W = Player.N, Player.E, Player.S, Player.W
LETTER = G.SEAT_LETTER
SUIT_KEY = {Suit.C: 'C', Suit.D: 'D', Suit.H: 'H', Suit.S: 'S', Suit.NT: 'NT'}


def is_passed_out(contract):
    return contract.final_bid is None or contract.final_bid is Bid.Pass


def contract_text(contract):
    """'3NT', '4SX', '7CXX' (redoubled whenever the redouble flag is set) or 'Passed_out'."""
    if is_passed_out(contract):
        return 'Passed_out'
    return G.CALL_TEXT[contract.final_bid] + ('XX' if contract.xx else ('X' if contract.x else ''))


def deal_lists(hands):
    return {LETTER[p]: [G.card_text(c.rank, c.suit) for c in sorted(hands[p])] for p in Player}


def dda_object(dda):
    return {LETTER[p]: {SUIT_KEY[s]: v for s, v in row.items()} for p, row in dda.items()}


def setting_record(board_id, dealer, deal, vul, dda):
    rec = {'board_id': board_id, 'dealer': LETTER[dealer], 'deal': deal_lists(deal),
           'vulnerability': G.VUL_TEXT[vul]}
    if dda is not None:
        rec['dda'] = dda_object(dda)
    return rec


def log_record(board_id, west_player, north_player, east_player, south_player, dealer, deal,
               scoring, bid_history, contract, tricks, taken_trick_num, scores, dda):
    """tricks: the recorded tricks (None for a passed-out board)."""
    rec = {'players': {'N': north_player, 'E': east_player, 'S': south_player, 'W': west_player},
           'board_id': board_id,
           'dealer': LETTER[dealer],
           'deal': deal_lists(deal),
           'vulnerability': G.VUL_TEXT[contract.vul],
           'bid_history': [G.CALL_TEXT[b] for b in bid_history],
           'contract': contract_text(contract),
           'declarer': None if is_passed_out(contract) else LETTER[contract.declarer],
           'play_history': None if tricks is None else
           [{'leader': LETTER[t.leader],
             'cards': [G.card_text(c.rank, c.suit) for c in t.cards]} for t in tricks],
           'taken_trick': taken_trick_num,
           'score_type': scoring.value,
           'scores': {'NS': scores[Pair.NS], 'EW': scores[Pair.EW]}}
    if dda is not None:
        rec['dda'] = dda_object(dda)
    return rec


HEADER = {'logs': '{"logs": [\n', 'board_settings': '{"board_settings": [\n'}
SEPARATOR = ',\n'
FOOTER_EMPTY = ']}'
FOOTER = '\n]}'


def document_text(tag, record_texts):
    """The whole file for a list of record texts (each a one-line JSON object)."""
    return HEADER[tag] + SEPARATOR.join(record_texts) + (FOOTER if record_texts else FOOTER_EMPTY)

"""The play of the cards according to the Laws of Duplicate Bridge (Laws 44-45: sequence and
procedure of play, who wins a trick; Law 41: opening lead), written from the statements of
C04-C06 -- not from the repository's code."""
from bridge_env import Pair, Player, Suit
from pyvc.speclib import conj, count, disj, exists, forall, implies, ite, seq_get
import spec.table as G


def is_winner(trump, cards, w):
    """Is the w-th card (0..3, in order played) a winner of the complete trick `cards`?  (C04)

    A trick containing a trump (in a suit contract) is won by the highest trump played; any other
    trick is won by the highest card of the suit led.  ('a' winner: equal cards cannot occur in a
    legal deal, and the statement does not rank them.)"""
    led = cards[0].suit
    has_trump = conj(trump is not Suit.NT, exists(cards, lambda c: c.suit is trump))
    wc = seq_get(cards, w)
    return conj(0 <= w, w <= 3, ite(
        has_trump,
        conj(wc.suit is trump, forall(cards, lambda c: implies(c.suit is trump, c.rank <= wc.rank))),
        conj(wc.suit is led, forall(cards, lambda c: implies(c.suit is led, c.rank <= wc.rank)))))


def distance(p, q):
    """How many seats clockwise from p to q (0..3)."""
    return (G.SEAT_NO[q] - G.SEAT_NO[p]) % 4


def playable(hand, led_card):
    """C06: the whole hand when leading or void in the suit led, else the hand's cards of that
    suit.  `hand` is a set of cards, `led_card` None when leading.  Returns a predicate on cards
    (membership in the playable set)."""
    raise NotImplementedError   # expressed pointwise in the contracts (sets are 52 guards)


def follows(hand_has_suit, in_hand, card_suit, led_suit):
    """Pointwise form of the follow-suit rule: is a card playable, given whether the hand holds any
    card of the suit led."""
    return conj(in_hand, disj(not hand_has_suit, card_suit is led_suit))

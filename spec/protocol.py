"""Blue Chip Bridge table-manager protocol, version 18: the texts of the messages, written from
the protocol document (and the statement of C19) -- not from the repository's f-strings.

Every enc_* function returns the canonical text one end sends; the other end's parser must turn
it back into the value.  Seats are written with their formal names, calls as "<seat> passes |
doubles | redoubles | bids <level><denomination>", cards as "<seat> plays <rank><suit>" (the suit
may also come first), hands as "S <ranks>. H <ranks>. D <ranks>. C <ranks>." with ranks high to
low separated by single spaces and "-" for a void.
"""
from bridge_env import Bid, Card, Player, Suit, Vul
import spec.table as G

SUITS_HAND = (Suit.S, Suit.H, Suit.D, Suit.C)
RANKS_HIGH_TO_LOW = tuple(range(14, 1, -1))
VUL_WORD = {Vul.NONE: 'Neither', Vul.NS: 'N/S', Vul.EW: 'E/W', Vul.BOTH: 'Both'}
CALL_WORD = {Bid.Pass: 'passes', Bid.X: 'doubles', Bid.XX: 'redoubles'}
DENOM_WORD = {Suit.C: 'C', Suit.D: 'D', Suit.H: 'H', Suit.S: 'S', Suit.NT: 'NT'}
SUIT_LETTER = {Suit.C: 'C', Suit.D: 'D', Suit.H: 'H', Suit.S: 'S'}


def enc_call(seat, call):
    """'North bids 1NT', 'East passes', 'South doubles', 'West redoubles'."""
    if G.CALL_INDEX[call] < 35:
        return G.FORMAL[seat] + ' bids ' + str(G.LEVEL[call]) + DENOM_WORD[G.DENOM[call]]
    return G.FORMAL[seat] + ' ' + CALL_WORD[call]


def enc_card(seat, card, suit_first=False):
    """'North plays 5C' (rank first, as the bundled client writes) or 'North plays C5'."""
    r, s = G.RANK_TEXT[card.rank], SUIT_LETTER[card.suit]
    return G.FORMAL[seat] + ' plays ' + (s + r if suit_first else r + s)


def enc_suit_holding(hand, suit):
    ranks = [G.RANK_TEXT[r] for r in RANKS_HIGH_TO_LOW if Card(r, suit) in hand]
    return ' '.join(ranks) if len(ranks) != 0 else '-'


def enc_hand(hand):
    """'S A K 3. H -. D Q J 10... C 2.'  (ten is written T)."""
    return 'S ' + enc_suit_holding(hand, Suit.S) + '. H ' + enc_suit_holding(hand, Suit.H) + \
        '. D ' + enc_suit_holding(hand, Suit.D) + '. C ' + enc_suit_holding(hand, Suit.C) + '.'


def enc_cards_message(owner_name, hand):
    """\"North's cards : S ... .\"  /  \"Dummy's cards : ...\""""
    return owner_name + "'s cards : " + enc_hand(hand)


def enc_header(board_number, dealer, vul):
    return 'Board number ' + str(board_number) + '. Dealer ' + G.FORMAL[dealer] + '. ' + \
        VUL_WORD[vul] + ' vulnerable.'


def enc_teams(ns_name, ew_name):
    return 'Teams : N/S : "' + ns_name + '" E/W : "' + ew_name + '"'


def enc_connect(team, seat, version):
    return 'Connecting "' + team + '" as ' + G.FORMAL[seat] + ' using protocol version ' + \
        str(version)


def enc_lead_prompt(seat_or_none):
    """'<seat> to lead' for a defender / declarer, 'Dummy to lead' to declarer when dummy leads."""
    return ('Dummy' if seat_or_none is None else G.FORMAL[seat_or_none]) + ' to lead'

"""Regenerates MANIFEST.json from the table below (run: python3-vt tools_manifest.py)."""
import json

TECH = 'contract-based deductive verification: VCs generated from the real AST by the pyvc symbolic evaluator, discharged by z3 (cvc5 confirms)'
NOTE = ('Trusted: the pyvc evaluator (/verif/pyvc) and its stated Python-subset semantics, z3/cvc5, CPython for constant folding and replay, '
        'the sidecar contracts/spec functions. Assumed external contracts are listed in the evidence file.')

CLAIMED = {
    'C01': ('proof', 'Class invariant of BiddingPhase (38 conjuncts: each slot of the advertised vector == legality of that call by the Laws, in every position in progress) proved established by __init__ and preserved by take_bid for an arbitrary symbolic state and call; take_bid proved to accept iff legal and to leave every field unchanged on rejection. Induction over the call history is the class-invariant rule, so every history of every length is covered by one symbolic step.', '4 (C01)'),
    'C02': ('proof', 'Same invariant: active seat == dealer rotated by the number of calls, per-seat lists == the seat\'s share of the common history (quantified over list positions), over <=> the history ends in the pattern the Laws prescribe; take_bid proved to return FINISHED exactly when the call ends the auction, and to raise with nothing changed once over.', '4 (C02)'),
    'C03': ('proof', 'take_bid proved to update last bid, its bidder, doubling flags and the first-to-name table as the Laws prescribe (fill-when-empty), contract() proved to report None before the end, a passed-out contract without bids, else last bid / effective doubling status / board vulnerability / table entry of the bidding side and denomination.', '4 (C03)'),
    'C04': ('proof', 'PlayingPhase class invariant (turn = leader rotated by cards on the table, one recorded trick and one credited trick per completed trick) proved for __init__/play_card/play_card_by_player; play_card proved against a declarative winner spec (highest trump else highest of suit led) for arbitrary symbolic cards incl. revokes; calc_highest proved for lists of ANY length by loop invariant; history append proved with the old leader and the four cards in order.', '4 (C04)'),
    'C05': ('proof', 'Exceptional postconditions (refused play: ValueError and every field unchanged) and the partition invariant (four hands and the played cards pairwise disjoint, |played| = number of plays, union conserved) proved for PlayingPhaseWithHands.play_card_by_player from an arbitrary invariant state with a symbolic card (complete 52-way substitution split for the counting conjunct); observer variant proved for own/dummy hand branches; lemma: 52 plays => all hands empty.', '4 (C05)'),
    'C06': ('proof', 'available_cards / current_available_cards* proved pointwise (52 guards) equal to the follow-suit rule for every hand (any subset of the pack) and every led card; subset / non-empty lemmas; RandomPlay.play proved to return a playable card under the assumed random.choice contract.', '4 (C06)'),
    'C07': ('proof', 'calc_bid_score / calc_score and the vulnerability chain (Contract.is_vul -> Player.is_vul -> Pair.is_vul) are proved equal to an independent Law-77 formula oracle for the whole finite domain in a handful of symbolic queries; every callee is used by contract and its contract is proved in the same run.', '4 (C07)'),
    'C14': ('proof', 'Every encoder is proved equal to a canonical-form spec (PBN text: spade-heart-diamond-club, high to low, void = empty field, unknown = "-"; binary / numpy slots; ascending JSON card texts) and every decoder to an independent field-by-field reader, for ALL deals at once (52 Boolean guards per hand; PBN text as a structured string matched by a symbolic regex matcher following re\'s priority order); round-trip lemmas through the contracts; random dealer proved disjoint / covering / 13 each under the assumed permutation contract of random.shuffle.', '4 (C14)'),
    'C15': ('proof', 'Every converter is proved equal to a spec table over its complete finite domain (symbolic for arithmetic converters, finite case split + constant folding for text converters); inverse/injectivity lemmas are proved over the spec tables.', '4 (C15)'),
    'C16': ('proof', 'point_difference_to_imps is proved equal to the official scale for every (unbounded) integer; monotonicity, oddness and range are lemmas over that contract; score_to_imp is proved by contract.', '4 (C16)'),
}
CLAIMED['C19'] = ('proof', 'Messages: every builder proved equal to a protocol-v18 spec and every parser proved to return the encoded value, one symbolic path per (seat, call / card / notation) covering ALL letter-case variants at once (letters as one-character atoms), the alert suffix with arbitrary blanks, hand texts of every card set, headers with unbounded board numbers, team names as opaque atoms; regexes are the source\'s own patterns run by a symbolic matcher with a per-call differential check against re. Framing: receive_message proved by loop invariant AND variant (termination; raises at end of stream), postcondition "bytes up to the first CR LF", and a sequence lemma. The variant obligation failed on the original tree (defect fixed by commit 0c50138).', '4 (C19)')
CLAIMED['C12'] = ('proof', 'JsonLogWriter.write proved to append exactly one record equal to an independent format spec for symbolic inputs (any deal, auction and play of any length as lazy lists, opaque names/ids, optional dda), with the streaming framing (open / separator / close) as typestate postconditions; the published schema is compiled into a structural postcondition on that record; convert_board_log / convert_board_setting proved to rebuild the written values as value objects (field-by-field), str_to_contract over the complete contract domain. Document level: json.loads(json.dumps(v)) == v and the array framing are assumed laws (listed).', '4 (C12)')
CLAIMED['C11'] = ('proof', 'Part (a) proved: relational lemma - an ObservedPlayingPhase built from the manager state at any seat, fed the play the manager accepted, accepts it too and agrees again on contract, declarer, turn, trick number, leaders, history, counts, own and dummy hand (both methods used by contract, contracts proved in the same run). Part (b) (network client mirrors) is not yet under contract: see evidence assumptions.', '4 (C11)')
NA = {
    'C09': 'liveness over all thread schedules: contracts on sequential functions cannot express or decide it and no concurrent deductive verifier for Python exists here (DESIGN section 6)',
}
props = [json.loads(l)['id'] for l in open('properties.jsonl')]
checks = []
for pid in props:
    if pid in CLAIMED:
        cat, text, ref = CLAIMED[pid]
        checks.append(dict(property_id=pid, quick_cmd=f'./check {pid} --tier quick', thorough_cmd=f'./check {pid} --tier thorough',
                           evidence_file=f'evidence/{pid}.json', replay_cmd_template=f'./check {pid} --replay {{path}}', engine='pyvc',
                           level_claimed=dict(category=cat, text=text, design_ref=ref), level_note=NOTE, technique=TECH))
na = [dict(property_id=p, reason=NA.get(p, 'check not built yet (work in progress in this session)')) for p in props if p not in CLAIMED]
m = dict(version=1, setup_cmd='python3-vt -c "import z3, numpy, jsonschema" && test -x /usr/bin/cvc5',
         hooks=dict(guard='BRIDGE_ENV_VERIF', enable='no hooks: contracts are sidecar files under /verif/contracts; the verifier re-reads /repo sources on every run (BRIDGE_ENV_REPO overrides the tree for scratch copies)',
                    baseline_off_cmd='cd /repo && /venv/bin/python -m pytest -ra -q -p no:cacheprovider --timeout=900 --continue-on-collection-errors', source_commits=[], add_only=True),
         engines=[dict(name='pyvc', path='pyvc/', serves_properties=sorted(CLAIMED), kind_free_text='deductive verifier for a Python subset: AST symbolic evaluator + contracts + z3/cvc5')],
         checks=checks, not_applicable=na,
         notes='exit codes: 0 holds, 1 violation (VIOLATION line + replay file), 2 undecided, 3 checker error')
json.dump(m, open('MANIFEST.json', 'w'), indent=1)
import jsonschema
jsonschema.validate(m, json.load(open('/root/.vp/MANIFEST.schema.json')))
print('manifest ok:', sorted(CLAIMED))

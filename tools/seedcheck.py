#!/usr/bin/env python3
"""Confirm a seeded change and run the checks against it.

usage: tools/seedcheck.py <seed dir with patch.diff, demo.py> <worktree> <Cxx[,Cyy...]> [--skip-tests]
Applies the patch in the scratch worktree, runs the repository's test suite (must pass) and the
demonstration (must fail), runs the given checks against the patched worktree (BRIDGE_ENV_REPO,
outputs under a temp dir), then restores the worktree and runs the demonstration again (must pass).
Prints one JSON line with the outcome.
"""
import json
import os
import shutil
import subprocess
import sys
import tempfile

VERIF = os.path.dirname(os.path.dirname(os.path.abspath(__file__)))


def sh(cmd, **kw):
    return subprocess.run(cmd, shell=True, capture_output=True, text=True, **kw)


def main():
    seed, wt, props = sys.argv[1:4]
    skip_tests = '--skip-tests' in sys.argv
    out = dict(seed=seed, props=props)
    r = sh(f'git -C {wt} checkout -q -- . && git -C {wt} apply {seed}/patch.diff')
    if r.returncode:
        out['error'] = 'patch does not apply: ' + r.stderr[-300:]
        print(json.dumps(out))
        return 2
    tmp = tempfile.mkdtemp(prefix='seedrun_')
    try:
        if not skip_tests:
            t = sh(f'cd {wt} && /venv/bin/python -m pytest -q -p no:cacheprovider --timeout=900 '
                   f'2>&1 | tail -3')
            out['tests'] = t.stdout.strip().splitlines()[-1] if t.stdout.strip() else t.stderr[-200:]
        d = sh(f'cd {wt} && PYTHONPATH={wt} timeout 600 /venv/bin/python {seed}/demo.py')
        out['demo_with_change_exit'] = d.returncode
        out['demo_with_change_tail'] = (d.stdout + d.stderr).strip().splitlines()[-1:]
        checks = {}
        for pid in props.split(','):
            env = dict(os.environ, BRIDGE_ENV_REPO=wt, VERIF_OUT=os.path.join(tmp, 'out'))
            c = subprocess.run([os.path.join(VERIF, 'check'), pid], env=env, capture_output=True,
                               text=True)
            lines = (c.stdout + c.stderr).strip().splitlines()
            checks[pid] = dict(exit=c.returncode,
                               violations=[ln.split('replays/')[-1] for ln in lines
                                           if ln.startswith('VIOLATION')][:6],
                               summary=[ln for ln in lines if ln.startswith(pid + ':')][-1:])
        out['checks'] = checks
    finally:
        sh(f'git -C {wt} checkout -q -- .')
        shutil.rmtree(tmp, ignore_errors=True)
    d = sh(f'cd {wt} && PYTHONPATH={wt} timeout 600 /venv/bin/python {seed}/demo.py')
    out['demo_pristine_exit'] = d.returncode
    print(json.dumps(out))
    return 0


if __name__ == '__main__':
    sys.exit(main())

#!/usr/bin/env python3
"""Mutation campaign: systematic small changes of the code under contract.

usage: tools/mutcampaign.py gen  <file relative to repo> <outdir>          # write mutants + index.json
       tools/mutcampaign.py test <outdir> [jobs]                           # which survive the test suite
       tools/mutcampaign.py check <outdir> <Cxx,Cyy> [max] [--seed N]      # run checks on survivors
       tools/mutcampaign.py checkfn <outdir> [max] [--seed N]              # modular: only the mutated
                                                                           # function's own unit

A mutant that passes the repository's tests AND the checks is either equivalent, irrelevant to the
properties, or a weakness of the contracts: those are listed for manual triage (no verdict is
automated here).  Everything lives under <outdir> (outside /repo and /verif) and can be deleted.
"""
import ast
import copy
import json
import os
import random
import shutil
import subprocess
import sys
from concurrent.futures import ThreadPoolExecutor

VERIF = os.path.dirname(os.path.dirname(os.path.abspath(__file__)))
REPO = '/repo'

CMP = {ast.Lt: ast.LtE, ast.LtE: ast.Lt, ast.Gt: ast.GtE, ast.GtE: ast.Gt, ast.Eq: ast.NotEq,
       ast.NotEq: ast.Eq, ast.Is: ast.IsNot, ast.IsNot: ast.Is, ast.In: ast.NotIn, ast.NotIn: ast.In}
BIN = {ast.Add: ast.Sub, ast.Sub: ast.Add, ast.Mult: ast.FloorDiv, ast.FloorDiv: ast.Mult,
       ast.Mod: ast.FloorDiv}


class Collector(ast.NodeVisitor):
    def __init__(self):
        self.sites = []
        self.fn = []

    def visit_FunctionDef(self, node):
        self.fn.append(node.name)
        self.generic_visit(node)
        self.fn.pop()

    def generic_visit(self, node):
        if self.fn:
            if isinstance(node, ast.Compare) and len(node.ops) == 1 and type(node.ops[0]) in CMP:
                self.sites.append((node, 'cmp'))
            elif isinstance(node, ast.BoolOp):
                self.sites.append((node, 'bool'))
            elif isinstance(node, ast.BinOp) and type(node.op) in BIN:
                self.sites.append((node, 'bin'))
            elif isinstance(node, ast.Constant) and isinstance(node.value, bool):
                self.sites.append((node, 'flip'))
            elif isinstance(node, ast.Constant) and isinstance(node.value, int) and \
                    not isinstance(node.value, bool):
                self.sites.append((node, 'inc'))
                self.sites.append((node, 'dec'))
            elif isinstance(node, (ast.If, ast.While)) and not (
                    isinstance(node.test, ast.Constant)):
                self.sites.append((node, 'negate'))
            elif isinstance(node, ast.UnaryOp) and isinstance(node.op, ast.Not):
                self.sites.append((node, 'unnot'))
            elif isinstance(node, ast.Expr) and isinstance(node.value, ast.Call) and not (
                    isinstance(node.value.func, ast.Attribute) and
                    isinstance(node.value.func.value, ast.Name) and
                    node.value.func.value.id == 'logger'):
                self.sites.append((node, 'delcall'))
            elif isinstance(node, (ast.Assign, ast.AugAssign)):
                self.sites.append((node, 'delassign'))
            elif isinstance(node, ast.Return) and node.value is not None and \
                    isinstance(node.value, ast.Constant) and isinstance(node.value.value, bool):
                pass
        super().generic_visit(node)


def apply(node, kind):
    if kind == 'cmp':
        node.ops = [CMP[type(node.ops[0])]()]
    elif kind == 'bool':
        node.op = ast.Or() if isinstance(node.op, ast.And) else ast.And()
    elif kind == 'bin':
        node.op = BIN[type(node.op)]()
    elif kind == 'flip':
        node.value = not node.value
    elif kind == 'inc':
        node.value = node.value + 1
    elif kind == 'dec':
        node.value = node.value - 1
    elif kind == 'negate':
        node.test = ast.UnaryOp(op=ast.Not(), operand=node.test)
    elif kind == 'unnot':
        # replaced by its operand: done by the caller through a transformer
        node.op = ast.UAdd()       # marker, see Fix
    elif kind in ('delcall', 'delassign'):
        node.__class__ = ast.Pass
        node._fields = ()


class Fix(ast.NodeTransformer):
    def visit_UnaryOp(self, node):
        self.generic_visit(node)
        if isinstance(node.op, ast.UAdd) and getattr(node, '_mut', False):
            return node.operand
        return node


def gen(rel, outdir):
    src = open(os.path.join(REPO, rel)).read()
    tree = ast.parse(src)
    col = Collector()
    col.visit(tree)
    os.makedirs(outdir, exist_ok=True)
    index = []
    for k in range(len(col.sites)):
        t2 = copy.deepcopy(tree)
        c2 = Collector()
        c2.visit(t2)
        node, kind = c2.sites[k]
        line = getattr(node, 'lineno', 0)
        before = ast.unparse(node)[:120] if not isinstance(node, ast.Pass) else ''
        apply(node, kind)
        if kind == 'unnot':
            node._mut = True
            t2 = Fix().visit(t2)
        ast.fix_missing_locations(t2)
        try:
            out = ast.unparse(t2)
            compile(out, rel, 'exec')
        except Exception:
            continue
        mid = f'm{k:04d}'
        open(os.path.join(outdir, mid + '.py'), 'w').write(out + '\n')
        index.append(dict(id=mid, file=rel, kind=kind, line=line, before=before.split('\n')[0]))
    json.dump(index, open(os.path.join(outdir, 'index.json'), 'w'), indent=0)
    print(f'{len(index)} mutants of {rel} in {outdir}')


def _tree(outdir, mid, rel, tag):
    d = os.path.join(outdir, f'tree_{tag}')
    if os.path.exists(d):
        shutil.rmtree(d)
    os.makedirs(d)
    shutil.copytree(os.path.join(REPO, 'bridge_env'), os.path.join(d, 'bridge_env'))
    shutil.copytree(os.path.join(REPO, 'tests'), os.path.join(d, 'tests'))
    for f in ('setup.py', 'setup.cfg', 'pyproject.toml', 'pytest.ini', 'tox.ini', 'conftest.py'):
        if os.path.exists(os.path.join(REPO, f)):
            shutil.copy(os.path.join(REPO, f), d)
    shutil.copy(os.path.join(outdir, mid + '.py'), os.path.join(d, rel))
    return d


def test(outdir, jobs=12):
    index = json.load(open(os.path.join(outdir, 'index.json')))

    def one(args):
        i, m = args
        d = _tree(outdir, m['id'], m['file'], f't{i % jobs}_{m["id"]}')
        try:
            r = subprocess.run(['/venv/bin/python', '-m', 'pytest', '-x', '-q', '-p',
                                'no:cacheprovider', '--timeout=120'], cwd=d,
                               capture_output=True, text=True, timeout=900,
                               env=dict(os.environ, PYTHONPATH=d))
            m['tests'] = 'pass' if r.returncode == 0 else 'fail'
        except subprocess.TimeoutExpired:
            m['tests'] = 'timeout'
        finally:
            shutil.rmtree(d, ignore_errors=True)
        return m
    with ThreadPoolExecutor(jobs) as ex:
        res = list(ex.map(one, enumerate(index)))
    json.dump(res, open(os.path.join(outdir, 'index.json'), 'w'), indent=0)
    n = sum(1 for m in res if m['tests'] == 'pass')
    print(f'{n} of {len(res)} mutants survive the test suite')


def check(outdir, props, mx=None, seed=0):
    index = json.load(open(os.path.join(outdir, 'index.json')))
    surv = [m for m in index if m.get('tests') == 'pass' and 'checks' not in m]
    random.Random(seed).shuffle(surv)
    if mx:
        surv = surv[:mx]
    for m in surv:
        d = _tree(outdir, m['id'], m['file'], 'chk')
        m['checks'] = {}
        for pid in props.split(','):
            env = dict(os.environ, BRIDGE_ENV_REPO=d, VERIF_OUT=os.path.join(d, 'out'))
            try:
                r = subprocess.run([os.path.join(VERIF, 'check'), pid], env=env,
                                   capture_output=True, text=True, timeout=2400)
                lines = (r.stdout + r.stderr).strip().splitlines()
                m['checks'][pid] = dict(exit=r.returncode, head=[ln[:200] for ln in lines
                                                                   if ln.startswith(('VIOLATION', '  ENGINE', '  UNDEC'))][:3])
            except subprocess.TimeoutExpired:
                m['checks'][pid] = dict(exit='timeout', head=[])
            if m['checks'][pid]['exit'] == 1:
                break
        shutil.rmtree(d, ignore_errors=True)
        verdict = 'CAUGHT' if any(c['exit'] == 1 for c in m['checks'].values()) else (
            'undecided' if any(c['exit'] in (2, 3, 'timeout') for c in m['checks'].values()) else 'SURVIVES')
        m['verdict'] = verdict
        print(f"{m['id']} {verdict:9s} {m['kind']:9s} L{m['line']:<4d} {m['before'][:90]}", flush=True)
        json.dump(index, open(os.path.join(outdir, 'index.json'), 'w'), indent=0)


def _qualname_at(rel, line):
    """Class.function (or function) of the repository source enclosing a line."""
    tree = ast.parse(open(os.path.join(REPO, rel)).read())
    best = None
    for n in tree.body:
        if isinstance(n, ast.ClassDef):
            for m in ast.walk(n):
                if isinstance(m, ast.FunctionDef) and m.lineno <= line <= m.end_lineno:
                    if m in n.body:
                        best = f'{n.name}.{m.name}'
        elif isinstance(n, ast.FunctionDef) and n.lineno <= line <= n.end_lineno:
            best = n.name
    return best


def checkfn(outdir, mx=None, seed=0, claimed=None):
    """Modular variant of `check`: a mutant changes one function, so only that function's own unit
    (VERIF_ONLY) is re-verified, for every claimed property the unit belongs to.  A mutant of a
    function that is not a verified unit is reported as NOUNIT (inlined at its call sites, or not
    under contract at all): those need the full check of the callers' properties."""
    sys.path.insert(0, VERIF)
    from pyvc import load
    reg = load.load()
    index = json.load(open(os.path.join(outdir, 'index.json')))
    surv = [m for m in index if m.get('tests') == 'pass' and 'verdict' not in m]
    random.Random(seed).shuffle(surv)
    if mx:
        surv = surv[:mx]
    for m in surv:
        qn = _qualname_at(m['file'], m['line'])
        m['function'] = qn
        mod = 'bridge_env.' + m['file'][len('bridge_env/'):-3].replace('/', '.')
        full = f'{mod}.{qn}'
        c = reg.fns.get(full)
        if c is None or not (c.mode == 'contract' and c.verify):
            m['verdict'] = 'NOUNIT'
            m['mode'] = None if c is None else c.mode
            print(f"{m['id']} NOUNIT    {m['kind']:9s} L{m['line']:<4d} {qn}: {m['before'][:80]}", flush=True)
            json.dump(index, open(os.path.join(outdir, 'index.json'), 'w'), indent=0)
            continue
        props = [p for p in sorted(c.props) if claimed is None or p in claimed]
        d = _tree(outdir, m['id'], m['file'], 'chk')
        m['checks'] = {}
        for pid in props:
            env = dict(os.environ, BRIDGE_ENV_REPO=d, VERIF_OUT=os.path.join(d, 'out'),
                       VERIF_ONLY=full)
            try:
                r = subprocess.run([os.path.join(VERIF, 'check'), pid], env=env,
                                   capture_output=True, text=True, timeout=1500)
                lines = (r.stdout + r.stderr).strip().splitlines()
                m['checks'][pid] = dict(exit=r.returncode, head=[ln[:200] for ln in lines
                                                                   if ln.startswith(('VIOLATION', '  ENGINE', '  UNDEC'))][:3])
            except subprocess.TimeoutExpired:
                m['checks'][pid] = dict(exit='timeout', head=[])
            if m['checks'][pid]['exit'] == 1:
                break
        shutil.rmtree(d, ignore_errors=True)
        verdict = 'CAUGHT' if any(c_['exit'] == 1 for c_ in m['checks'].values()) else (
            'undecided' if any(c_['exit'] in (2, 3, 'timeout') for c_ in m['checks'].values()) else 'SURVIVES')
        m['verdict'] = verdict
        print(f"{m['id']} {verdict:9s} {m['kind']:9s} L{m['line']:<4d} {qn}: {m['before'][:80]}", flush=True)
        json.dump(index, open(os.path.join(outdir, 'index.json'), 'w'), indent=0)


if __name__ == '__main__':
    cmd = sys.argv[1]
    if cmd == 'gen':
        gen(sys.argv[2], sys.argv[3])
    elif cmd == 'test':
        test(sys.argv[2], int(sys.argv[3]) if len(sys.argv) > 3 else 12)
    elif cmd == 'checkfn':
        mx = int(sys.argv[3]) if len(sys.argv) > 3 and sys.argv[3].isdigit() else None
        seed = int(sys.argv[sys.argv.index('--seed') + 1]) if '--seed' in sys.argv else 0
        checkfn(sys.argv[2], mx, seed)
    elif cmd == 'check':
        mx = int(sys.argv[4]) if len(sys.argv) > 4 and sys.argv[4].isdigit() else None
        seed = int(sys.argv[sys.argv.index('--seed') + 1]) if '--seed' in sys.argv else 0
        check(sys.argv[2], sys.argv[3], mx, seed)

#!/usr/bin/env python3
"""Apply a one-line mutation to a scratch copy of /repo and run a check against it.

usage: tools/mutate.py <Cxx[,Cyy]> <file relative to repo> <old text> <new text> [--tier quick]
The scratch copy lives under a fresh temp dir and is removed afterwards; evidence/replays of the
scratch run go to the temp dir too (VERIF_OUT), never to /verif/evidence.
"""
import os
import shutil
import subprocess
import sys
import tempfile

VERIF = os.path.dirname(os.path.dirname(os.path.abspath(__file__)))


def main():
    props, rel, old, new = sys.argv[1:5]
    tmp = tempfile.mkdtemp(prefix='mut_')
    try:
        shutil.copytree('/repo/bridge_env', os.path.join(tmp, 'bridge_env'))
        p = os.path.join(tmp, rel)
        s = open(p).read()
        if s.count(old) != 1:
            print(f'MUTATE: pattern occurs {s.count(old)} times (need exactly 1)')
            return 9
        open(p, 'w').write(s.replace(old, new))
        env = dict(os.environ, BRIDGE_ENV_REPO=tmp, VERIF_OUT=os.path.join(tmp, 'out'))
        rc_all = 0
        for pid in props.split(','):
            r = subprocess.run([os.path.join(VERIF, 'check'), pid] + sys.argv[5:], env=env,
                               capture_output=True, text=True)
            out = (r.stdout + r.stderr).strip().splitlines()
            print(f'--- {pid}: exit {r.returncode}')
            for ln in out[-12:]:
                print('   ', ln[:300])
            rc_all = max(rc_all, r.returncode)
        return rc_all
    finally:
        shutil.rmtree(tmp, ignore_errors=True)


if __name__ == '__main__':
    sys.exit(main())

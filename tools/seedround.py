#!/usr/bin/env python3
"""Round-4 intake: /tmp/seed4/out/<Cxx>/{patch_A.diff,demo_A.py,notes.txt} -> /verif/seeded/<Cxx><suffix>/
and run tools/seedcheck.py against the scratch worktree /tmp/seed4/<Cxx>.
usage: tools/seedround.py <Cxx> <A|B> <suffix> <props,comma> [--skip-tests]"""
import json, os, shutil, subprocess, sys
V = os.path.dirname(os.path.dirname(os.path.abspath(__file__)))
pid, letter, suffix, props = sys.argv[1:5]
src = f'/tmp/seed4/out/{pid}'
dst = f'{V}/seeded/{pid}{suffix}'
os.makedirs(dst, exist_ok=True)
shutil.copy(f'{src}/patch_{letter}.diff', f'{dst}/patch.diff')
shutil.copy(f'{src}/demo_{letter}.py', f'{dst}/demo.py')
if os.path.exists(f'{src}/notes.txt'):
    shutil.copy(f'{src}/notes.txt', f'{dst}/notes.txt')
r = subprocess.run([sys.executable, f'{V}/tools/seedcheck.py', dst, f'/tmp/seed4/{pid}', props] + sys.argv[5:],
                   capture_output=True, text=True)
line = r.stdout.strip().splitlines()[-1] if r.stdout.strip() else '{}'
try:
    out = json.loads(line)
except Exception:
    out = dict(error=r.stdout[-500:] + r.stderr[-500:])
meta_p = f'{dst}/meta.json'
meta = json.load(open(meta_p)) if os.path.exists(meta_p) else dict(
    property=pid, round=4, change=letter,
    source='independent sub-agent given only the property text and a scratch worktree (fourth round: two changes per property, away from the central function, needing something specific to manifest)')
_prev = (meta.get('confirmed') or {}).get('tests_with_change')
meta['confirmed'] = dict(tests_with_change=out.get('tests') or _prev, demo_with_change_exit=out.get('demo_with_change_exit'),
                         demo_pristine_exit=out.get('demo_pristine_exit'))
meta['ran'] = f'tools/seedcheck.py seeded/{pid}{suffix} <scratch worktree> {props}'
if 'check_result' in meta and 'check_result_first_run' not in meta:
    meta['check_result_first_run'] = meta['check_result']
meta['check_result'] = out.get('checks')
json.dump(meta, open(meta_p, 'w'), indent=1)
print(pid + suffix, json.dumps(out)[:1500])

import sys, traceback
sys.path.insert(0,'/verif')
from pyvc import load, verify, ctx as C, interp
reg = load.load()
v = verify.Verifier(reg)
name=sys.argv[1]
import pyvc.verify as VV
# monkeypatch to print tracebacks
orig = VV.traceback.format_exception_only
if name in reg.fns:
    c = reg.fns[name]
    import pyvc.verify
    try:
        res = v.verify_function(c)
    except Exception: traceback.print_exc()
else:
    res = v.verify_lemma(reg.lemmas[name])
print('paths',res.paths,'cov',res.covered,'secs',round(res.secs,1),'err',res.engine_error, res.exits)
for k,o in res.obls.items():
    if o['status']!='proved': print(k,o['status'],str(o['detail'])[:300], {a:b for a,b in (o['ce'] or {}).items() if a!='__raw__'})

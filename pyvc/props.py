"""Per-property configuration: which extra (non-unit) checks run besides the contract units."""
from . import runner

EXTRA = {}


def run(pid, tier, seed, jobs=None):
    return runner.run_property(pid, tier, seed, extra_checks=EXTRA.get(pid), jobs=jobs)

"""Symbolic regular-expression matching on structured strings (DESIGN 2.3).

The pattern is the *source's own pattern string*, parsed by CPython's re parser.  The matcher is a
backtracking matcher that follows re's priority order (greedy repeats try the longest first,
alternatives left to right).  The subject is an XStr: concrete stretches are matched character by
character as re does; an uncertain segment (a guarded piece or an atom) is only ever consumed
whole, by a repeated single-character item whose class contains the segment's whole character set,
or skipped by an item none of whose characters it can contain.  Whenever the outcome could depend
on how an uncertain segment is instantiated, Undetermined is raised (-> undecided, never assumed).
The result is therefore re's result for *every* instantiation of the subject.
"""
from __future__ import annotations

import re

try:                                   # Python >= 3.11
    import re._parser as _sp
    import re._constants as _sc
except ImportError:                    # pragma: no cover
    import sre_parse as _sp
    import sre_constants as _sc

import z3

from .strings import Atom, Undetermined, XStr
from .values import EngineError, SList, mk_bool as V_mk_bool

LITERAL, NOT_LITERAL, ANY, IN = _sc.LITERAL, _sc.NOT_LITERAL, _sc.ANY, _sc.IN
MAX_REPEAT, MIN_REPEAT, SUBPATTERN, BRANCH, AT = (_sc.MAX_REPEAT, _sc.MIN_REPEAT, _sc.SUBPATTERN,
                                                  _sc.BRANCH, _sc.AT)
NEGATE, RANGE, CATEGORY = _sc.NEGATE, _sc.RANGE, _sc.CATEGORY
MAXREPEAT = _sc.MAXREPEAT
SINGLE = (LITERAL, NOT_LITERAL, ANY, IN)


def _category(cat, ch):
    if cat is _sc.CATEGORY_DIGIT:
        return ch.isdecimal()
    if cat is _sc.CATEGORY_NOT_DIGIT:
        return not ch.isdecimal()
    if cat is _sc.CATEGORY_SPACE:
        return ch.isspace()
    if cat is _sc.CATEGORY_NOT_SPACE:
        return not ch.isspace()
    if cat is _sc.CATEGORY_WORD:
        return ch.isalnum() or ch == '_'
    if cat is _sc.CATEGORY_NOT_WORD:
        return not (ch.isalnum() or ch == '_')
    raise EngineError(f'regex category {cat}')


class Matcher:
    def __init__(self, it, subject, flags):
        self.it = it
        self.s = XStr.lift(subject)
        self.segs = self.s.segs
        self.icase = bool(flags & re.IGNORECASE)
        self.dotall = bool(flags & re.DOTALL)
        self.n = len(self.segs)

    # -- characters -----------------------------------------------------------------------------
    def char_ok(self, op, av, ch):
        if op is ANY:
            return self.dotall or ch != '\n'
        if op is LITERAL or op is NOT_LITERAL:
            lit = chr(av)
            eq = (ch == lit) or (self.icase and ch.lower() == lit.lower())
            return eq if op is LITERAL else not eq
        if op is IN:
            neg = False
            hit = False
            for o, a in av:
                if o is NEGATE:
                    neg = True
                elif o is LITERAL:
                    c = chr(a)
                    hit = hit or ch == c or (self.icase and ch.lower() == c.lower())
                elif o is RANGE:
                    lo, hi = a
                    hit = hit or lo <= ord(ch) <= hi or (self.icase and (
                        lo <= ord(ch.lower()) <= hi or lo <= ord(ch.upper()) <= hi))
                elif o is CATEGORY:
                    hit = hit or _category(a, ch)
                else:
                    raise EngineError(f'regex class member {o}')
            return hit != neg
        raise EngineError(f'regex item {op}')

    def rel(self, op, av, piece):
        """'all' / 'none' / 'some' of the characters the piece may contain match the item."""
        if isinstance(piece, str):
            oks = [self.char_ok(op, av, ch) for ch in piece]
        elif piece.only is not None:
            oks = [self.char_ok(op, av, ch) for ch in piece.only]
        else:
            ex = piece.excl
            if op is ANY:
                return 'all' if (self.dotall or '\n' in ex) else 'some'
            if op is LITERAL:
                c = chr(av)
                cands = {c, c.lower(), c.upper()} if self.icase else {c}
                return 'none' if cands <= ex else 'some'
            if op is NOT_LITERAL:
                c = chr(av)
                cands = {c, c.lower(), c.upper()} if self.icase else {c}
                return 'all' if cands <= ex else 'some'
            if op is IN:
                neg = any(o is NEGATE for o, _ in av)
                members = [(o, a) for o, a in av if o is not NEGATE]
                if all(o is LITERAL for o, _ in members):
                    listed = {chr(a) for _, a in members}
                    if self.icase:
                        listed |= {c.lower() for c in listed} | {c.upper() for c in listed}
                    if listed <= ex:
                        return 'all' if neg else 'none'
                return 'some'
            return 'some'
        if oks and all(oks):
            return 'all'
        if not any(oks):
            return 'none'
        return 'some'

    # -- positions ------------------------------------------------------------------------------
    def norm(self, pos):
        i, off = pos
        while i < self.n:
            g, p = self.segs[i]
            if isinstance(p, str) and off >= len(p):   # (also skips pieces resolved to '')
                i, off = i + 1, 0
                continue
            break
        return (i, off)

    def at_end(self, pos):
        return self.norm(pos)[0] >= self.n

    def concrete_at(self, pos):
        i, off = pos
        g, p = self.segs[i]
        return g is True and isinstance(p, str)

    # -- first characters of the rest of the pattern -------------------------------------------
    def first_items(self, items):
        """Single-character items one of which must match the first character of anything the
        item list matches; None if it may match the empty string or cannot be computed."""
        out = []
        for k, (op, av) in enumerate(items):
            if op in SINGLE:
                out.append((op, av))
                return out
            if op is AT:
                continue
            if op is SUBPATTERN:
                sub = self.first_items(list(av[3]) + list(items[k + 1:]))
                return None if sub is None else out + sub
            if op is BRANCH:
                for alt in av[1]:
                    sub = self.first_items(list(alt) + list(items[k + 1:]))
                    if sub is None:
                        return None
                    out.extend(sub)
                return out
            if op in (MAX_REPEAT, MIN_REPEAT):
                lo, hi, body = av
                sub = self.first_items(list(body) + ([] if lo > 0 else []))
                if sub is None:
                    return None
                out.extend(sub)
                if lo > 0:
                    return out
                continue
            return None
        return None

    def required_literals(self, items):
        """Characters every match of `items` must contain, with multiplicity (case-sensitive
        patterns only: with IGNORECASE a letter has two spellings and is not counted)."""
        need = {}
        for op, av in items:
            if op is LITERAL:
                ch = chr(av)
                if self.icase and ch.lower() != ch.upper():
                    continue
                need[ch] = need.get(ch, 0) + 1
            elif op is SUBPATTERN:
                for ch, k in self.required_literals(list(av[3])).items():
                    need[ch] = need.get(ch, 0) + k
            elif op in (MAX_REPEAT, MIN_REPEAT) and av[0] >= 1:
                for ch, k in self.required_literals(list(av[2])).items():
                    need[ch] = need.get(ch, 0) + k * av[0]
        return need

    def impossible(self, items, pos):
        """The rest of the pattern needs more occurrences of some character than the rest of the
        subject can possibly contain: no instantiation matches."""
        need = self.required_literals(items)
        if not need:
            return False
        i, off = self.norm(pos)
        for ch, k in need.items():
            have = 0
            for j in range(i, self.n):
                g, p = self.segs[j]
                if isinstance(p, str):
                    have += (p[off:] if j == i else p).count(ch)
                elif p.may_contain(ch):
                    have = None
                    break
            if have is not None and have < k:
                return True
        return False

    def may_start_inside(self, follow_items, piece):
        fi = self.first_items(follow_items)
        if fi is None:
            return True
        return any(self.rel(op, av, piece) != 'none' for op, av in fi)

    # -- matching -------------------------------------------------------------------------------
    def match_seq(self, items, k, pos, caps, cont, follow):
        if k == len(items):
            return cont(pos, caps)
        op, av = items[k]
        rest = list(items[k + 1:]) + follow

        def nxt(p, c):
            return self.match_seq(items, k + 1, p, c, cont, follow)
        if op in SINGLE:
            return self.single(op, av, pos, caps, nxt)
        if op is SUBPATTERN:
            group, _add, _del, body = av
            start = self.norm(pos)

            def after(p2, c2):
                if group is not None:
                    c2 = dict(c2)
                    c2[group] = (start, self.norm(p2))
                return nxt(p2, c2)
            return self.match_seq(list(body), 0, pos, caps, after, rest)
        if op is BRANCH:
            for alt in av[1]:
                r = self.match_seq(list(alt), 0, pos, caps, nxt, rest)
                if r is not None:
                    return r
            return None
        if op is MAX_REPEAT:
            lo, hi, body = av
            body = list(body)
            if len(body) == 1 and body[0][0] in SINGLE:
                return self.run(body[0][0], body[0][1], lo, hi, pos, caps, nxt, rest)
            return self.repeat(body, lo, hi, 0, pos, caps, nxt, rest)
        if op is AT:
            if av in (_sc.AT_BEGINNING, _sc.AT_BEGINNING_STRING):
                return nxt(pos, caps) if self.norm(pos) == self.norm((0, 0)) else None
            if av in (_sc.AT_END, _sc.AT_END_STRING):
                if self.at_end(pos):
                    return nxt(pos, caps)
                i, off = self.norm(pos)
                if self.concrete_at((i, off)):
                    g, p = self.segs[i]
                    if av is _sc.AT_END and p[off:] == '\n' and i == self.n - 1:
                        return nxt(pos, caps)
                    return None
                raise Undetermined('end anchor before an uncertain segment')
            raise EngineError(f'regex anchor {av}')
        if op is MIN_REPEAT:
            raise EngineError('lazy repeats are not modelled')
        raise EngineError(f'regex construct {op}')

    def single(self, op, av, pos, caps, nxt):
        i, off = self.norm(pos)
        if i >= self.n:
            return None
        g, p = self.segs[i]
        if g is True and isinstance(p, str):
            return nxt((i, off + 1), caps) if self.char_ok(op, av, p[off]) else None
        r = self.rel(op, av, p)
        if g is True and isinstance(p, Atom) and p.exact1 and r != 'some':
            return nxt((i + 1, 0), caps) if r == 'all' else None
        if r == 'none':
            if g is True and (isinstance(p, str) or p.minlen >= 1):
                return None
            # blocks if present, transparent if absent: decided only if skipping it fails too
            if self.single(op, av, (i + 1, 0), caps, nxt) is None:
                return None
            raise Undetermined('a single-character item faces an uncertain segment')
        raise Undetermined('a single-character item faces an uncertain segment')

    def repeat(self, body, lo, hi, count, pos, caps, nxt, rest):
        if hi is MAXREPEAT or count < hi:
            def again(p2, c2):
                if self.norm(p2) == self.norm(pos):
                    return None
                return self.repeat(body, lo, hi, count + 1, p2, c2, nxt, rest)
            r = self.match_seq(body, 0, pos, caps, again, [])
            if r is not None:
                return r
        if count >= lo:
            return nxt(pos, caps)
        return None

    def resolve_guards(self):
        """Replace guards that the path condition decides by True / drop the piece.  Positions
        are segment indices, so dropped pieces become empty literals (skipped by norm)."""
        ctx = self.it.ctx
        changed = False
        for i, (g, p) in enumerate(self.segs):
            if g is True:
                continue
            if not ctx.feasible(z3.Not(g)):
                self.segs[i] = (True, p)
                changed = True
            elif not ctx.feasible(g):
                self.segs[i] = (True, '')
                changed = True
        return changed

    def run(self, op, av, lo, hi, pos, caps, nxt, rest):
        """Greedy repeat of one single-character item."""
        ctx = self.it.ctx
        p = self.norm(pos)
        stops = [(p, None)]          # (position, uncertain segment just crossed or None)
        n_conc = 0
        sym = []
        while True:
            i, off = self.norm(p)
            if i >= self.n:
                break
            g, piece = self.segs[i]
            if g is True and isinstance(piece, str):
                if not sym and hi is not MAXREPEAT and n_conc >= hi:
                    break
                if self.char_ok(op, av, piece[off]):
                    n_conc += 1
                    p = (i, off + 1)
                    stops.append((self.norm(p), None))
                    continue
                break
            r = self.rel(op, av, piece)
            if g is True and isinstance(piece, Atom) and piece.exact1 and r != 'some':
                # a one-character atom behaves like a concrete character
                if r == 'none' or (not sym and hi is not MAXREPEAT and n_conc >= hi):
                    break
                n_conc += 1
                p = (i + 1, 0)
                stops.append((self.norm(p), None))
                continue
            if r == 'all':
                ln = len(piece) if isinstance(piece, str) else z3.Length(piece.t)
                sym.append(z3.If(g, ln, 0) if g is not True else ln)
                p = (i + 1, 0)
                stops.append((self.norm(p), piece))
                continue
            if r == 'none' and g is True and (isinstance(piece, str) or piece.minlen >= 1):
                break
            if r == 'none':
                # present: the run stops here; absent: it goes on.  Ask the path condition.
                gz = g if g is not True else z3.Length(piece.t) > 0
                if not ctx.feasible(z3.Not(gz)):
                    break
                if not ctx.feasible(gz):
                    p = (i + 1, 0)
                    stops[-1] = (self.norm(p), stops[-1][1])
                    continue
            if self.impossible(rest, pos):
                return None
            raise Undetermined('the extent of a repeated item depends on an uncertain segment')
        if sym:
            total = z3.Sum(sym) + n_conc
            if hi is not MAXREPEAT:
                if ctx.feasible(total > hi):
                    if self.impossible(rest, pos):
                        return None
                    # case split: either the run is within the bound, or it is longer -- then
                    # resolve the guards of the pieces with the (stronger) path condition and
                    # match again on the more concrete subject
                    if ctx.decide(V_mk_bool(total > hi)) and self.resolve_guards():
                        return self.run(op, av, lo, hi, pos, caps, nxt, rest)
                    if ctx.feasible(total > hi):
                        raise Undetermined('bounded repeat over segments of unknown length')
            if lo > 0 and ctx.feasible(total < lo):
                if not ctx.feasible(total >= lo):
                    return None
                # case split on the path condition: the run is long enough, or the item fails here
                if not ctx.decide(V_mk_bool(total >= lo)):
                    return None
        # greedy: longest first
        for idx in range(len(stops) - 1, -1, -1):
            q, crossed = stops[idx]
            if not sym:
                if idx < lo:
                    break
            elif idx < len(stops) - 1 and lo > 0:
                raise Undetermined('backtracking into a repeat with a minimum over uncertain text')
            r = nxt(q, caps)
            if r is not None:
                return r
            if crossed is not None and not (isinstance(crossed, str) and len(crossed) == 1):
                # positions strictly inside the uncertain segment are not tried: sound only if the
                # rest of the pattern cannot start there
                if self.may_start_inside(rest, crossed):
                    raise Undetermined('the rest of the pattern could match inside an uncertain '
                                       'segment')
        return None


class UMatch:
    """Result of a symbolic match: group(k) are structured sub-strings of the subject."""

    def __init__(self, matcher, start, end, caps, ngroups):
        self.m = matcher
        self.span0 = (start, end)
        self.caps = caps
        self.ngroups = ngroups

    def group(self, k=0):
        if k == 0:
            a, b = self.span0
        else:
            if k not in self.caps:
                return None
            a, b = self.caps[k]
        return self.m.s.slice_pos(a, b)

    def groups(self):
        return tuple(self.group(k) for k in range(1, self.ngroups + 1))


def _parse(pattern, flags):
    tree = _sp.parse(pattern, flags)
    return list(tree), tree.state.groups - 1


def match(it, pattern, subject, flags=0, full=False):
    items, ng = _parse(pattern, flags)
    m = Matcher(it, subject, flags)

    def done(p, c):
        if full and not m.at_end(p):
            return None
        return (m.norm(p), c)
    r = m.match_seq(items, 0, (0, 0), {}, done, [])
    if r is None:
        return None
    return UMatch(m, m.norm((0, 0)), r[0], r[1], ng)


def finditer(it, pattern, subject, flags=0):
    """All non-overlapping matches, leftmost first (re.finditer order)."""
    items, ng = _parse(pattern, flags)
    m = Matcher(it, subject, flags)
    res = []
    pos = m.norm((0, 0))
    while True:
        i, off = pos
        r = m.match_seq(items, 0, pos, {}, lambda p, c: (m.norm(p), c), [])
        if r is not None:
            end = r[0]
            res.append(UMatch(m, pos, end, r[1], ng))
            if end != pos:
                pos = end
                continue
        if i >= m.n:
            break
        g, p = m.segs[i]
        if g is True and isinstance(p, str):
            pos = m.norm((i, off + 1))
            continue
        # no match starts at the beginning of this uncertain segment: starts strictly inside it
        # are skipped, which is sound only if the pattern cannot start there
        if not ((isinstance(p, str) and len(p) == 1) or (isinstance(p, Atom) and p.exact1)) \
                and m.may_start_inside(items, p):
            raise Undetermined('a match could start inside an uncertain segment')
        pos = m.norm((i + 1, 0))
    return res


def search(it, pattern, subject, flags=0):
    r = finditer(it, pattern, subject, flags)
    return r[0] if r else None


def findall(it, pattern, subject, flags=0):
    out = []
    for um in finditer(it, pattern, subject, flags):
        if um.ngroups == 0:
            out.append(um.group(0))
        elif um.ngroups == 1:
            out.append(um.group(1))
        else:
            out.append(tuple(x if x is not None else '' for x in um.groups()))
    return SList(out)


def _ws_collapse(it, pattern, repl, s, flags):
    """re.sub(<one-or-more of a class of blanks>, ' ', s) segment by segment: exact when every
    uncertain segment is a blank-normal atom (single inner spaces only, no blank at either end)
    whose concrete neighbours are not blanks -- then no run of blanks crosses a segment border and
    the atom itself is a fixed point of the substitution."""
    items, _ = _parse(pattern, flags)
    if not (len(items) == 1 and items[0][0] is MAX_REPEAT and items[0][1][0] == 1 and
            items[0][1][1] is MAXREPEAT and len(items[0][1][2]) == 1 and
            items[0][1][2][0][0] is IN and repl == ' '):
        return None
    m = Matcher(it, s, flags)
    cls = items[0][1][2][0]
    blank = lambda ch: m.char_ok(cls[0], cls[1], ch)
    if not blank(' ') or any(not ch.isspace() for ch in ' \t\r\n' if blank(ch)) is None:
        return None
    segs = s.segs
    out = []
    for i, (g, p) in enumerate(segs):
        if g is True and isinstance(p, str):
            out.append((True, re.sub(pattern, repl, p, flags=flags)))
            continue
        if not (g is True and isinstance(p, Atom) and p.ws_normal):
            return None
        prev = segs[i - 1] if i > 0 else None
        nxt = segs[i + 1] if i + 1 < len(segs) else None
        for nb, at in ((prev, -1), (nxt, 0)):
            if nb is None:
                continue
            if not (nb[0] is True and isinstance(nb[1], str)) or blank(nb[1][at]):
                return None
        out.append((g, p))
    return XStr(out).simplify()


def sub(it, pattern, repl, subject, flags=0):
    if not isinstance(repl, str) or '\\' in repl:
        raise Undetermined('re.sub with a non-literal replacement')
    s = XStr.lift(subject)
    r = _ws_collapse(it, pattern, repl, s, flags)
    if r is not None:
        return r
    ms = finditer(it, pattern, s, flags)
    if not ms:
        return s.simplify()
    m = ms[0].m
    segs = []
    cur = m.norm((0, 0))
    for um in ms:
        a, b = um.span0
        piece = s.slice_pos(cur, a)
        segs.extend(XStr.lift(piece).segs)
        if repl:
            segs.append((True, repl))
        cur = b
    segs.extend(XStr.lift(s.slice_pos(cur, (m.n, 0))).segs)
    return XStr(segs).simplify()

"""Loads the repository under analysis and all sidecar contracts."""
import importlib
import os
import sys

REPO = os.environ.get('BRIDGE_ENV_REPO', '/repo')
VERIF = os.path.dirname(os.path.dirname(os.path.abspath(__file__)))

CONTRACT_MODULES = ['score', 'leaves', 'contract', 'bidding', 'playing', 'hands', 'pbn_deal', 'protocol', 'framing', 'json_io', 'server_main', 'pbn_io', 'server_seat', 'client', 'plumbing']


def load(modules=None):
    for p in (VERIF, REPO):
        if p not in sys.path:
            sys.path.insert(0, p)
    import bridge_env
    if not os.path.abspath(bridge_env.__file__).startswith(os.path.abspath(REPO)):
        raise RuntimeError(f'bridge_env imported from {bridge_env.__file__}, expected {REPO}')
    from . import values as V
    V.set_card_classes(bridge_env.Card, bridge_env.Suit)
    from . import dsl
    for m in (modules or CONTRACT_MODULES):
        importlib.import_module('contracts.' + m)
    return dsl.REGISTRY

import argparse
import os
import sys


def main():
    ap = argparse.ArgumentParser()
    ap.add_argument('property')
    ap.add_argument('--tier', default=os.environ.get('VERIF_TIER', 'quick'))
    ap.add_argument('--replay')
    ap.add_argument('--jobs', type=int, default=None)
    a = ap.parse_args()
    seed = int(os.environ.get('VERIF_SEED', '0') or 0)
    from . import runner
    if a.replay:
        sys.exit(runner.replay_file(a.replay))
    from . import props
    try:
        rc = props.run(a.property, a.tier, seed, a.jobs)
    except Exception:
        import traceback
        traceback.print_exc()
        rc = 3
    sys.exit(rc)


if __name__ == '__main__':
    main()

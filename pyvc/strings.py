"""Structured strings (DESIGN 2.3).

An XStr is a sequence of *segments* (guard, piece):
    guard  True or a z3 Bool  -- the piece is part of the string iff the guard holds
    piece  a non-empty concrete str, or an Atom (an unknown string described by a character class,
           optionally with provenance such as "this is str(n)").
Concrete strings never get here: they stay Python str and are constant-folded through CPython.

What is decided structurally (no string solver): concatenation, f-strings, join, len, iteration over
guarded characters, split on a separator that only occurs as whole segments, comparison with a
literal when the structure decides it, and regular-expression matching (pyvc.xregex).  Anything the
structure does not decide raises Undetermined, which the driver reports as *undecided* -- never as
proved and never as a violation.
"""
from __future__ import annotations

import enum
import itertools

import z3

from . import values as V
from .values import (BT, T, EngineError, GList, SBool, SInt, SList, Sym, b_and, b_implies, b_not,
                     b_or, mk_bool, mk_int)


class Undetermined(EngineError):
    """The structured-string reasoning cannot decide this operation for every instantiation."""


_atom_ids = itertools.count(1)
_DERIVED = {}
_CONTAINS = {}


class Atom:
    """Unknown string.  only: frozenset of allowed characters, or None; excl: frozenset of excluded
    characters (used when only is None).  minlen: 0 or 1.  int_of: SInt/int n when the atom is
    str(n) (so int(atom) == n).  t: z3 String constant standing for the text."""

    def __init__(self, name, only=None, excl=frozenset(), minlen=0, int_of=None, note='',
                 exact1=False, ws_normal=False):
        # ws_normal: blanks inside occur only as single spaces, never at either end
        self.ws_normal = ws_normal
        self.exact1 = exact1          # exactly one character (e.g. a letter in either case)
        if exact1:
            minlen = 1
        self.name = name
        self.only = frozenset(only) if only is not None else None
        self.excl = frozenset(excl)
        self.minlen = minlen
        self.int_of = int_of
        self.note = note
        self.t = z3.String(name)

    def may_contain(self, ch):
        if self.only is not None:
            return ch in self.only
        return ch not in self.excl

    def __repr__(self):
        return f'Atom({self.name})'


def piece_may_contain(piece, ch):
    if isinstance(piece, str):
        return ch in piece
    return piece.may_contain(ch)


class XStr(Sym):
    # alts: [(guard, str)] when the string is known to be exactly one of finitely many literals
    # (pairwise exclusive guards, one of them true) -- kept by merge / concat, used for lookups
    __slots__ = ('segs', 'alts')

    def __init__(self, segs):
        out = []
        for g, p in segs:
            if g is False or (isinstance(p, str) and p == ''):
                continue
            if isinstance(g, SBool):
                g = g.t
            if not isinstance(g, bool):
                g = z3.simplify(g)
                if z3.is_true(g):
                    g = True
                elif z3.is_false(g):
                    continue
            if out and g is True and out[-1][0] is True and isinstance(p, str) and \
                    isinstance(out[-1][1], str):
                out[-1] = (True, out[-1][1] + p)
            else:
                out.append((g, p))
        self.segs = out
        self.alts = None

    # -- construction ---------------------------------------------------------------------------
    @staticmethod
    def lift(s):
        if isinstance(s, XStr):
            return s
        if isinstance(s, str):
            return XStr([(True, s)] if s else [])
        raise EngineError(f'not a string: {s!r}')

    @staticmethod
    def atom(name, **kw):
        return XStr([(True, Atom(name, **kw))])

    def simplify(self):
        """A plain str when nothing symbolic is left."""
        if all(g is True and isinstance(p, str) for g, p in self.segs):
            return ''.join(p for _, p in self.segs)
        return self

    def __repr__(self):
        return 'XStr(' + ' '.join((p if isinstance(p, str) else f'<{p.name}>') +
                                  ('' if g is True else '?') for g, p in self.segs) + ')'

    # -- basic queries --------------------------------------------------------------------------
    def guarded_by(self, cond):
        return XStr([(cond if g is True else z3.And(cond, g), p) for g, p in self.segs])

    def length(self):
        n = 0
        ts = []
        for g, p in self.segs:
            ln = len(p) if isinstance(p, str) else (1 if p.exact1 else z3.Length(p.t))
            if g is True and isinstance(ln, int):
                n += ln
            else:
                ts.append(z3.If(g, ln, 0) if g is not True else ln)
        return mk_int(z3.Sum(ts) + n) if ts else n

    def nonempty(self):
        out = []
        for g, p in self.segs:
            if isinstance(p, str) or p.minlen >= 1:
                out.append(g)
            else:
                out.append(b_and(g, mk_bool(z3.Length(p.t) > 0)))
        return b_or(*out)

    def iter_chars(self):
        out = []
        for g, p in self.segs:
            if not isinstance(p, str):
                raise Undetermined(f'iteration over the characters of {p!r}')
            for ch in p:
                out.append((mk_bool(g) if not isinstance(g, bool) else g, ch))
        return out

    def term(self):
        """SMT String term of the whole text (fallback reasoning only)."""
        parts = []
        for g, p in self.segs:
            t = z3.StringVal(p) if isinstance(p, str) else p.t
            parts.append(t if g is True else z3.If(g, t, z3.StringVal('')))
        if not parts:
            return z3.StringVal('')
        return z3.Concat(*parts) if len(parts) > 1 else parts[0]

    def concretize(self, m):
        out = []
        for g, p in self.segs:
            if g is not True and not z3.is_true(m.eval(g, model_completion=True)):
                continue
            if isinstance(p, str):
                out.append(p)
            else:
                v = m.eval(p.t, model_completion=True)
                try:
                    s = v.as_string()
                except Exception:
                    s = ''
                if p.int_of is not None:
                    try:
                        s = str(m.eval(T(p.int_of), model_completion=True).as_long())
                    except Exception:
                        pass
                out.append(_sanitize(p, s))
        return ''.join(out)

    # -- slicing by segment positions (used by the regex matcher) --------------------------------
    def slice_pos(self, a, b):
        """Sub-string between positions a=(i,off) and b=(j,off)."""
        (i, oi), (j, oj) = a, b
        segs = []
        for k in range(i, min(j + 1, len(self.segs))):
            g, p = self.segs[k]
            lo = oi if k == i else 0
            hi = oj if k == j else None
            if isinstance(p, str):
                q = p[lo:hi]
                if q:
                    segs.append((g, q))
            else:
                if k == j and oj == 0:
                    continue
                if lo != 0 or hi not in (None,):
                    raise Undetermined('slice inside an unknown string')
                segs.append((g, p))
        return XStr(segs).simplify()

    # -- Python-level operations ----------------------------------------------------------------
    def _map_alts(self, it, f):
        """Apply a total-or-raising str -> str function to each alternative."""
        from .interp import PyRaise
        out = []
        for g, t in self.alts:
            try:
                out.append((g, f(t)))
            except Exception as e:
                if it.ctx.decide(g if isinstance(g, (bool, SBool)) else mk_bool(g)):
                    raise PyRaise(type(e), e.args)
        if not out:
            raise EngineError('no alternative left')
        r = out[-1][1]
        for g, t in reversed(out[:-1]):
            r = str_merge(BT(g), t, r)
        return r

    def getitem(self, it, idx):
        if self.alts is not None and isinstance(idx, int):
            return self._map_alts(it, lambda t: t[idx])
        if isinstance(idx, int) and idx < 0 and self.segs:
            g, p = self.segs[-1]
            if g is True and isinstance(p, str) and -idx <= len(p):
                return p[idx]
        if isinstance(idx, int) and idx >= 0:
            # the idx-th character is determined only if everything before it is unconditional
            k = idx
            for g, p in self.segs:
                if g is not True or not isinstance(p, str):
                    break
                if k < len(p):
                    return p[k]
                k -= len(p)
        raise Undetermined(f'{self!r}[{idx!r}]')

    def getslice(self, it, lo, hi, st):
        if self.alts is not None and all(x is None or isinstance(x, int) for x in (lo, hi, st)):
            return self._map_alts(it, lambda t: t[slice(lo, hi, st)])
        # s[lo:] with lo inside the unconditional literal prefix
        if st is None and hi is None and isinstance(lo, int) and lo >= 0 and self.segs:
            g, p = self.segs[0]
            if g is True and isinstance(p, str) and lo <= len(p):
                return self.slice_pos((0, lo), (len(self.segs), 0))
        raise Undetermined(f'slice {lo}:{hi} of {self!r}')

    def enum_lookup(self, it, cls):
        from .interp import PyRaise
        if self.alts is None:
            raise Undetermined(f'{cls.__name__}[{self!r}]')
        bad = b_or(*[g for g, t in self.alts if t not in cls.__members__])
        if it.ctx.decide(bad):
            raise PyRaise(KeyError, ('<name>',))
        good = [(g, cls[t]) for g, t in self.alts if t in cls.__members__]
        acc = good[-1][1]
        for g, m in reversed(good[:-1]):
            acc = V.merge(BT(g), m, acc)
        return acc

    def method(self, it, name, args, kwargs):
        from .interp import PyRaise
        if name == 'split':
            return str_split(it, self, *args, **kwargs)
        if name in ('upper', 'lower'):
            segs = []
            for g, p in self.segs:
                if isinstance(p, str):
                    segs.append((g, getattr(p, name)()))
                elif p.only is not None and all(getattr(c, name)() == c for c in p.only):
                    segs.append((g, p))
                elif p.only is not None and p.exact1 and \
                        len({getattr(c, name)() for c in p.only}) == 1:
                    segs.append((g, getattr(next(iter(p.only)), name)()))   # 'n'|'N' -> 'N'
                elif p.only is None:
                    # an opaque text: its case-folded form is another opaque text, a function of it
                    key = (p.name, name)
                    d = _DERIVED.get(key)
                    if d is None:
                        d = _DERIVED[key] = Atom(f'{p.name}.{name}', excl=p.excl, minlen=p.minlen)
                    segs.append((g, d))
                else:
                    raise Undetermined(f'{name}() of {p!r}')
            return XStr(segs).simplify()
        if name == 'join':
            return str_join(it, self, args[0])
        if name in ('replace', 'capitalize', 'strip', 'lstrip', 'rstrip', 'title') and \
                self.alts is not None and all(isinstance(a, str) for a in args):
            return self._map_alts(it, lambda t: getattr(t, name)(*args))
        if name in ('strip', 'lstrip', 'rstrip') and len(self.segs) == 1 and \
                self.segs[0][0] is True and isinstance(self.segs[0][1], Atom) and not args:
            p = self.segs[0][1]
            key = (p.name, name)
            d = _DERIVED.get(key)
            if d is None:
                d = _DERIVED[key] = Atom(f'{p.name}.{name}', only=p.only, excl=p.excl)
            return XStr([(True, d)])
        if name == 'find' and len(args) == 1 and isinstance(args[0], str) and args[0]:
            needle = args[0]
            if not any(piece_may_contain(p, needle[0]) for _, p in self.segs):
                return -1
            raise Undetermined(f'find({needle!r}) in {self!r}')
        if name in ('startswith', 'endswith'):
            raise Undetermined(f'{name} on {self!r}')
        if name == 'encode':
            return XBytes(self)
        if name == 'format':
            raise Undetermined('str.format on a structured string')
        raise Undetermined(f'str.{name} on {self!r}')


class XBytes(Sym):
    """bytes value that is the UTF-8 encoding of a structured string (opaque: only decode())."""
    __slots__ = ('s',)

    def __init__(self, s):
        self.s = s


def _sanitize(atom, s):
    # keep the length the model chose (the path condition may speak about it): a character the
    # atom cannot contain is replaced, not dropped
    fill = next((c for c in 'xX0-' if atom.may_contain(c)), None)
    if fill is None and atom.only:
        fill = sorted(atom.only)[0]
    out = ''.join(ch if atom.may_contain(ch) else (fill or '') for ch in s)
    if atom.minlen and not out:
        cands = sorted(atom.only) if atom.only else ['x']
        out = cands[0]
    return out


# ------------------------------------------------------------------------------------------------
# functions used by the interpreter


def _alts_of(x):
    if isinstance(x, str):
        return [(True, x)]
    return x.alts


def _with_alts(x, alts):
    if isinstance(x, XStr) and alts is not None and len(alts) <= 400:
        x.alts = alts
    return x


def str_concat(a, b):
    aa, ab = _alts_of(a), _alts_of(b)
    a, b = XStr.lift(a), XStr.lift(b)
    r = XStr(a.segs + b.segs).simplify()
    if aa is not None and ab is not None and len(aa) * len(ab) <= 400:
        alts = []
        for g1, s1 in aa:
            for g2, s2 in ab:
                g = b_and(g1, g2)
                if g is not False:
                    alts.append((g, s1 + s2))
        _with_alts(r, alts)
    return r


def str_merge(c, a, b):
    """The string a if c else b."""
    aa, ab = _alts_of(a), _alts_of(b)
    a, b = XStr.lift(a), XStr.lift(b)
    r = XStr(a.guarded_by(c).segs + b.guarded_by(z3.Not(c)).segs).simplify()
    if aa is not None and ab is not None:
        alts = []
        for g, t in aa:
            g2 = b_and(mk_bool(c), g)
            if g2 is not False:
                alts.append((g2, t))
        for g, t in ab:
            g2 = b_and(b_not(mk_bool(c)), g)
            if g2 is not False:
                alts.append((g2, t))
        # join equal texts
        by = {}
        for g, t in alts:
            by[t] = b_or(by[t], g) if t in by else g
        _with_alts(r, [(g, t) for t, g in by.items()])
    return r


def alternatives(x):
    """[(guard, literal)] if x is known to be one of finitely many literals, else None."""
    if isinstance(x, str):
        return [(True, x)]
    return x.alts


def str_join(it, sep, xs):
    """sep.join(xs) for a list / guarded list of strings."""
    sep = XStr.lift(sep)
    items = it.iterate_guarded(xs)
    segs = []
    earlier = False      # some earlier item is present
    for g, x in items:
        x = XStr.lift(it.to_str(x) if not isinstance(x, (str, XStr)) else x)
        gz = True if g is True else BT(g)
        if earlier is not False:
            sg = b_and(g, earlier)
            if sg is not False:
                segs.extend(sep.guarded_by(BT(sg)).segs if sg is not True else sep.segs)
        segs.extend(x.segs if g is True else x.guarded_by(gz).segs)
        earlier = b_or(earlier, g)
    return XStr(segs).simplify()


def case_variants(ctx, text, name='cv'):
    """Every ASCII letter-case variant of `text` at once: each letter becomes a one-character atom
    that is the letter in either case."""
    segs = []
    for k, ch in enumerate(text):
        if ch.isascii() and ch.isalpha():
            a = Atom(ctx.fresh_name(f'{name}{k}'), only={ch.lower(), ch.upper()},
                     exact1=True, note=f'{ch.lower()}|{ch.upper()}')
            segs.append((True, a))
        else:
            segs.append((True, ch))
    return XStr(segs)


def str_of_int(it, v):
    """str(n) for a symbolic int: enumerated when the path condition leaves few values, otherwise
    an atom with provenance (int(str(n)) == n is the assumed law, DESIGN 2.12)."""
    # enumerate only when the path condition confines n to a small window (decided by entailment,
    # never by a solver model: the exploration must replay deterministically)
    cache = it.ctx.__dict__.setdefault('strofint_cache', {})
    hit = cache.get(v.t.get_id())
    if hit is not None and hit[0].eq(v.t):
        return XStr([(True, hit[1])])       # str() of the same int is the same text (same atom)
    if not it.ctx.feasible(z3.Or(v.t < 0, v.t > 9)):
        try:
            return str(it.ctx.decide_by_model(v.t, cap=11))
        except EngineError:
            pass
    name = it.ctx.fresh_name('strofint')
    digits = '0123456789' if not it.ctx.feasible(v.t < 0) else '-0123456789'
    a = Atom(name, only=digits, minlen=1, int_of=v, note='str(int)')
    it.ctx.assume_type(z3.Length(a.t) >= 1)
    if not it.ctx.feasible(z3.Or(v.t >= 10 ** 18, v.t <= -10 ** 18)):
        it.ctx.assume_type(z3.Length(a.t) <= 19)      # |n| < 10^18 has at most 19 characters
    cache[v.t.get_id()] = (v.t, a)
    return XStr([(True, a)])


def str_to_int(it, x):
    from .interp import PyRaise
    x = XStr.lift(x)
    if len(x.segs) == 1 and x.segs[0][0] is True and not isinstance(x.segs[0][1], str):
        a = x.segs[0][1]
        if a.int_of is not None:
            return a.int_of
        if a.only is not None and a.only <= frozenset('0123456789') and a.minlen >= 1:
            # digits only: a natural number, otherwise unconstrained
            n = it.ctx.fresh_int('int_of_' + a.name)
            it.ctx.assume_type(n >= 0)
            a.int_of = SInt(n)
            return a.int_of
    raise Undetermined(f'int({x!r})')


def _definitely_differs(x, lit):
    """Structure alone shows x != lit for every instantiation."""
    fixed = ''.join(p for g, p in x.segs if g is True and isinstance(p, str))
    # every unconditional literal character must occur in lit, in order
    k = 0
    for ch in fixed:
        k = lit.find(ch, k)
        if k < 0:
            return True
        k += 1
    if len(fixed) > len(lit):
        return True
    for g, p in x.segs:
        if g is True and not isinstance(p, str) and p.minlen >= 1 and \
                not any(p.may_contain(ch) for ch in lit):
            return True
    return False


def _int_atom(x):
    """The int n if x is exactly str(n) (an atom with that provenance), else None."""
    if isinstance(x, XStr) and len(x.segs) == 1 and x.segs[0][0] is True and \
            isinstance(x.segs[0][1], Atom) and x.segs[0][1].int_of is not None:
        return x.segs[0][1].int_of
    return None


def _canonical_int(lit):
    try:
        return int(lit) if str(int(lit)) == lit else None
    except ValueError:
        return None


def str_eq(it, a, b):
    # str(n) against literals: str(n) == lit  <=>  lit is the canonical decimal text of n
    for x, y in ((a, b), (b, a)):
        n = _int_atom(x)
        if n is not None:
            alts = _alts_of(y)
            if alts is not None:
                return b_or(*[b_and(g, mk_bool(T(n) == _canonical_int(t)))
                              for g, t in alts if _canonical_int(t) is not None])
            m = _int_atom(y)
            if m is not None:
                return mk_bool(T(n) == T(m))
    aa, ab = _alts_of(a), _alts_of(b)
    if aa is not None and ab is not None and not (isinstance(a, str) and isinstance(b, str)):
        return b_or(*[b_and(g1, g2) for g1, s1 in aa for g2, s2 in ab if s1 == s2])
    a, b = XStr.lift(a), XStr.lift(b)
    sa, sb = a.simplify(), b.simplify()
    if isinstance(sa, str) and isinstance(sb, str):
        return sa == sb
    if isinstance(sb, str) or isinstance(sa, str):
        x, lit = (a, sb) if isinstance(sb, str) else (b, sa)
        if _definitely_differs(x, lit):
            return False
        # x consists of guarded literal pieces only: equality is a Boolean combination of guards
        if all(isinstance(p, str) for _, p in x.segs):
            return _eq_guarded_literal(x, lit)
        if len(x.segs) == 1 and x.segs[0][0] is True:
            atom = x.segs[0][1]
            if not all(atom.may_contain(ch) for ch in lit) or (atom.minlen and not lit):
                return False
            return mk_bool(atom.t == z3.StringVal(lit))
        return mk_bool(x.term() == z3.StringVal(lit))
    # a common unconditional last / first piece (the very same atom object) cancels:
    # x + t == y + t  <=>  x == y
    while a.segs and b.segs and a.segs[-1][0] is True and b.segs[-1][0] is True and \
            not isinstance(a.segs[-1][1], str) and a.segs[-1][1] is b.segs[-1][1]:
        a, b = XStr(a.segs[:-1]), XStr(b.segs[:-1])
        if not a.segs or not b.segs or all(isinstance(p, str) for _, p in a.segs + b.segs):
            return str_eq(it, a.simplify(), b.simplify())
    # both structured: identical structure decides it
    if len(a.segs) == len(b.segs) and all(
            (g1 is g2 or (not isinstance(g1, bool) and not isinstance(g2, bool) and g1.eq(g2))) and
            (p1 == p2 if isinstance(p1, str) and isinstance(p2, str) else p1 is p2)
            for (g1, p1), (g2, p2) in zip(a.segs, b.segs)):
        return True
    if all(isinstance(p, str) for _, p in a.segs) and all(isinstance(p, str) for _, p in b.segs):
        return _eq_guarded_both(a, b)
    return mk_bool(a.term() == b.term())


def _chars(x):
    out = []
    for g, p in x.segs:
        for ch in p:
            out.append((g, ch))
    return out


def _eq_guarded_both(x, y):
    """x == y for two strings made of guarded literal pieces only: an exact Boolean condition over
    the guards, by dynamic programming over the two character sequences."""
    import sys
    cx, cy = _chars(x), _chars(y)
    n, m = len(cx), len(cy)
    sys.setrecursionlimit(max(sys.getrecursionlimit(), 4 * (n + m) + 1000))
    memo = {}

    def E(i, j):
        key = (i, j)
        if key in memo:
            return memo[key]
        if i == n and j == m:
            r = True
        elif i == n:
            g, _ = cy[j]
            r = False if g is True else b_and(b_not(mk_bool(g)), E(i, j + 1))
        elif j == m:
            g, _ = cx[i]
            r = False if g is True else b_and(b_not(mk_bool(g)), E(i + 1, j))
        else:
            (gx, chx), (gy, chy) = cx[i], cy[j]
            opts = []
            if gx is not True:
                opts.append(b_and(b_not(mk_bool(gx)), E(i + 1, j)))
            if gy is not True:
                opts.append(b_and(mk_bool(gx) if gx is not True else True, b_not(mk_bool(gy)),
                                  E(i, j + 1)))
            if chx == chy:
                opts.append(b_and(mk_bool(gx) if gx is not True else True,
                                  mk_bool(gy) if gy is not True else True, E(i + 1, j + 1)))
            r = b_or(*opts) if opts else False
        memo[key] = r
        return r
    return E(0, 0)


def _eq_guarded_literal(x, lit):
    """x (guarded literal pieces) == lit as a Bool over the guards: dynamic programming over
    (segment index, position in lit)."""
    segs = x.segs
    memo = {}

    def go(i, k):
        key = (i, k)
        if key in memo:
            return memo[key]
        if i == len(segs):
            r = (k == len(lit))
        else:
            g, p = segs[i]
            take = go(i + 1, k + len(p)) if lit.startswith(p, k) else False
            if g is True:
                r = take
            else:
                skip = go(i + 1, k)
                r = b_or(b_and(mk_bool(g), take), b_and(b_not(mk_bool(g)), skip))
        memo[key] = r
        return r
    return go(0, 0)


def str_contains(it, cont, x):
    cont, x = XStr.lift(cont), XStr.lift(x)
    sx = x.simplify()
    if isinstance(sx, str):
        if not sx:
            return True
        if not any(piece_may_contain(p, sx[0]) for _, p in cont.segs):
            return False
        fixed = [p for g, p in cont.segs if g is True and isinstance(p, str)]
        if any(sx in p for p in fixed):
            return True
        if not any(all(piece_may_contain(p, ch) for ch in sx) or
                   any(piece_may_contain(p, ch) for ch in sx) for _, p in cont.segs):
            return False
    if isinstance(sx, str) and all(isinstance(p, str) or p.exact1 or
                                   (p.only is not None and len(p.only) <= 4)
                                   for _, p in cont.segs):
        # every unknown piece ranges over a few characters: the test is a (small) string constraint
        for _, p in cont.segs:
            if isinstance(p, Atom) and p.exact1:
                it.ctx.assume_type(z3.Or([p.t == z3.StringVal(c) for c in sorted(p.only)]))
            if isinstance(p, Atom) and not p.exact1:
                it.ctx.assume_type(z3.InRe(p.t, z3.Star(z3.Union(*[z3.Re(c) for c in sorted(p.only)]))
                                           if len(p.only) > 1 else z3.Star(z3.Re(next(iter(p.only))))))
        return mk_bool(z3.Contains(cont.term(), z3.StringVal(sx)))
    if isinstance(sx, str) and len(cont.segs) == 1 and cont.segs[0][0] is True and \
            isinstance(cont.segs[0][1], Atom):
        # substring test on an opaque text: an unknown Boolean that is a function of the text
        key = (cont.segs[0][1].name, sx)
        b = _CONTAINS.get(key)
        if b is None:
            b = _CONTAINS[key] = z3.Bool(f'contains[{key[0]},{sx!r}]')
        return mk_bool(b)
    raise Undetermined(f'{x!r} in {cont!r}')


def str_split(it, s, sep=None, maxsplit=-1):
    """s.split(sep) where sep occurs in s only as whole (possibly guarded) segments obeying the
    join discipline: a guarded separator is present iff the token to its right is non-empty and
    some token to its left is non-empty.  The discipline is *checked* against the path condition
    (it is what str.join produces); otherwise Undetermined."""
    if sep is None or not isinstance(sep, str) or maxsplit != -1:
        raise Undetermined('split() without a concrete separator')
    tokens = [[]]
    seps = []
    for g, p in s.segs:
        if isinstance(p, str) and p == sep:
            seps.append(g)
            tokens.append([])
            continue
        if isinstance(p, str) and sep in p:
            if g is True:
                parts = p.split(sep)
                tokens[-1].append((g, parts[0]))
                for q in parts[1:]:
                    seps.append(True)
                    tokens.append([(g, q)] if q else [])
                continue
            raise Undetermined('separator inside a guarded piece')
        if not isinstance(p, str) and p.may_contain(sep[0]):
            raise Undetermined(f'separator may occur inside {p!r}')
        tokens[-1].append((g, p))
    xs = [XStr(t) for t in tokens]
    ne = [x.nonempty() for x in xs]
    if all(g is True for g in seps):
        return SList([x.simplify() for x in xs])
    # join discipline
    for k, g in enumerate(seps):
        want = b_and(ne[k + 1], b_or(*ne[:k + 1]))
        same = it.eq_bool(g if isinstance(g, bool) else g, want if isinstance(want, bool) else BT(want)) \
            if not (isinstance(g, bool) and isinstance(want, bool)) else (g == want)
        if same is True:
            continue
        r, _ = it.ctx._check(z3.Not(BT(same)), it.ctx.FEAS_TIMEOUT_MS)
        if r != z3.unsat:
            raise Undetermined('split: the separators do not follow the join discipline')
    def under_guard(x):
        # a token made of one guarded piece: inside the list item (which carries the guard) the
        # token is just that piece
        if len(x.segs) == 1:
            return XStr([(True, x.segs[0][1])]).simplify()
        return x.simplify()
    items = []
    for n, x in zip(ne, xs):
        if n is False:
            continue
        if len(x.segs) > 1 and all(g is not True for g, _ in x.segs):
            # pieces that exclude one another (a?b:c merged strings): one list item per piece
            gs = [g for g, _ in x.segs]
            excl = all(not it.ctx.feasible(z3.And(gs[a], gs[b]))
                       for a in range(len(gs)) for b in range(a + 1, len(gs)))
            if excl:
                for g, p in x.segs:
                    items.append((mk_bool(g), XStr([(True, p)]).simplify()))
                continue
        items.append((n, under_guard(x)))
    items.append((b_not(b_or(*ne)), ''))
    return GList([(g, x) for g, x in items if g is not False])


def str_method_native(it, owner, name, args, kwargs):
    """Method of a concrete str called with symbolic arguments."""
    if name == 'join':
        return str_join(it, owner, args[0])
    if name == 'format':
        raise Undetermined('str.format with symbolic arguments')
    raise EngineError(f'str.{name} with symbolic arguments')

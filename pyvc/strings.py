"""Structured strings (DESIGN 2.3).  Filled in incrementally; concrete strings never get here."""
from __future__ import annotations

from .values import EngineError


class XStr:
    @staticmethod
    def lift(s):
        raise EngineError('structured strings not available yet')


def str_eq(it, a, b):
    raise EngineError('symbolic string equality')


def str_contains(it, cont, x):
    raise EngineError('symbolic string containment')


def str_concat(a, b):
    raise EngineError('symbolic string concatenation')


def str_of_int(it, v):
    # finite-domain ints are concretised (complete enumeration by solver models)
    return str(it.ctx.decide_by_model(v.t))


def str_to_int(it, x):
    raise EngineError('int() of a symbolic string')


def str_method_native(it, owner, name, args, kwargs):
    raise EngineError(f'str.{name} with symbolic arguments')

"""Verification driver: explores all paths of one unit (function contract or lemma), collects
named obligations, and turns counter-models into concrete evaluator values."""
from __future__ import annotations

import enum
import hashlib
import inspect
import os
import time
import traceback

import z3

from . import calls
from . import values as V
from .ctx import Ctx, PathEnd
from .interp import Interp, PyRaise, get_funcdef, qualname_of
from .values import T as T_
from .values import (EngineError, EnumInfo, GList, SBool, SCardSet, SDict, SEnum, SInt, SList,
                     SObj, SOpt, SSeq, SSet, SVec, b_not, mk_bool)

MAX_PATHS = 50000


class UnitResult:
    def __init__(self, name, kind):
        self.name = name
        self.kind = kind
        self.obls = {}          # name -> dict(status, checks, secs, backend set, ce, detail)
        self.paths = 0
        self.covered = 0        # paths that reached their end with a satisfiable path condition
        self.engine_error = None
        self.secs = 0.0
        self.solver_secs = 0.0
        self.src_sha = None
        self.samples = []
        self.exits = {}         # outcome kind -> count ('return', 'raise X')
        self.queries = 0
        self.used = set()

    def add(self, ob, ce=None):
        d = self.obls.setdefault(ob.name, dict(status='proved', checks=0, secs=0.0,
                                               backends=set(), ce=None, detail='', smt2=None,
                                               where=ob.where))
        d['checks'] += 1
        d['secs'] += ob.secs
        d['backends'].add(ob.backend)
        if ob.backend != 'syntactic':
            self.queries += 1
        if ob.status == 'failed':
            if d['status'] != 'failed':
                d['status'] = 'failed'
                d['ce'] = ce
                d['detail'] = ob.detail
                d['smt2'] = ob.smt2
                d['where'] = ob.where
        elif ob.status == 'unknown':
            if d['status'] == 'proved':
                d['status'] = 'unknown'
                d['detail'] = ob.detail
                d['smt2'] = ob.smt2
        elif ob.smt2 and d['smt2'] is None and d['status'] == 'proved':
            d['smt2'] = ob.smt2

    def to_dict(self):
        return dict(name=self.name, kind=self.kind, paths=self.paths, covered=self.covered,
                    engine_error=self.engine_error, secs=round(self.secs, 3),
                    solver_secs=round(self.solver_secs, 3), src_sha=self.src_sha,
                    exits=self.exits, queries=self.queries, used=sorted(self.used),
                    pending=getattr(self, 'pending', []),
                    obls={k: dict(status=v['status'], checks=v['checks'], secs=round(v['secs'], 3),
                                  backends=sorted(v['backends']), ce=v['ce'], detail=v['detail'],
                                  smt2=v['smt2'], where=v['where'])
                          for k, v in self.obls.items()})


# ------------------------------------------------------------------------------------------------
# model -> concrete evaluator values


def concretize(m, v):
    def ev(t):
        return m.eval(t, model_completion=True)
    if isinstance(v, SInt):
        return ev(v.t).as_long()
    if isinstance(v, SBool):
        return z3.is_true(ev(v.t))
    if isinstance(v, SEnum):
        code = ev(v.t).as_long()
        return EnumInfo.of(v.cls).by_code.get(code, ('<invalid>', v.cls.__name__, code))
    if isinstance(v, tuple) and v and v[0] == '<invalid>':
        return v
    if isinstance(v, SOpt):
        if z3.is_true(ev(V.BT(v.isnone))):
            return None
        return concretize(m, v.inner)
    if isinstance(v, SObj):
        if V.is_card(v):
            r, s = V.card_fields(v)
            r, s = concretize(m, r), concretize(m, s)
            try:
                return V.mk_card(r, s)
            except Exception:
                return ('<card>', r, s)
        return SObj(v.cls, {k: concretize(m, x) for k, x in v.fields.items()}, frozen=v.frozen)
    if isinstance(v, SList):
        return SList([concretize(m, x) for x in v.items])
    if isinstance(v, SDict):
        return SDict({k: concretize(m, x) for k, x in v.d.items()})
    if isinstance(v, SCardSet):
        return SCardSet([g if isinstance(g, bool) else z3.is_true(ev(V.BT(g))) for g in v.guards])
    if isinstance(v, SSeq):
        n = ev(V.T(v.n)).as_long()
        n = max(0, min(n, 400))
        out = []
        for i in range(n):
            try:
                out.append(concretize(m, v.elem.wrap(ev(z3.Select(v.arr, i)))))
            except EngineError:
                # the model leaves this element ill-typed (the obligation does not depend on it):
                # use a well-typed default so that the rest of the model can still be replayed
                d = getattr(v.elem, 'default', None)
                out.append(d() if d else ('<invalid>', str(ev(z3.Select(v.arr, i)))))
        return SList(out)
    if isinstance(v, SVec):
        return SVec([concretize(m, x) for x in v.slots], v.dtype)
    if isinstance(v, tuple):
        return tuple(concretize(m, x) for x in v)
    if isinstance(v, GList):
        return SList([concretize(m, x) for g, x in v.items
                      if (g if isinstance(g, bool) else z3.is_true(ev(V.BT(g))))])
    from .strings import XStr
    if isinstance(v, XStr):
        return v.concretize(m)
    from . import ext as _ext
    if isinstance(v, _ext.AbsLine):
        k = ev(v.kind()).as_long()
        return {0: ' \n', 1: '% a comment line\n'}.get(k, '[Event "x"]\n')
    if isinstance(v, _ext.SExt):
        return _ext.SExt(v.kind, {k: concretize(m, x) for k, x in v.fields.items()})
    if isinstance(v, _ext.SCharSeq):
        n = max(0, min(ev(T_(v.n)).as_long(), 2000))
        out = []
        for i in range(n):
            code = ev(z3.Select(v.arr, T_(v.off) + i)).as_long()
            out.append('\n' if code == 10 else chr(97 + code % 26))
        return ''.join(out)
    if isinstance(v, _ext.SBytes):
        n = max(0, min(ev(v.n).as_long(), 400))
        return bytes(ev(z3.Select(v.arr, i)).as_long() % 256 for i in range(n))
    if isinstance(v, _ext.SDecoded):
        return concretize(m, v.raw).decode('utf-8', 'replace')
    return v


def describe(v, depth=0):
    """JSON-able description of a concrete evaluator value."""
    if isinstance(v, enum.Enum):
        return f'{type(v).__name__}.{v.name}'
    if isinstance(v, SObj):
        return {'__class__': v.cls.__name__, **{k: describe(x, depth + 1) for k, x in v.fields.items()}}
    if isinstance(v, SList):
        return [describe(x, depth + 1) for x in v.items]
    if isinstance(v, SDict):
        return {describe(k) if not isinstance(k, str) else k: describe(x, depth + 1)
                for k, x in v.d.items()}
    if isinstance(v, SCardSet):
        return sorted(str(V.concrete_card(i)) for i, g in enumerate(v.guards) if g is True)
    if isinstance(v, SVec):
        return [describe(x) for x in v.slots]
    if type(v).__name__ == 'SExt':
        return {'__ext__': v.kind, **{k: describe(x, depth + 1) for k, x in v.fields.items()}}
    if isinstance(v, bytes):
        return repr(v)
    if isinstance(v, tuple):
        return [describe(x) for x in v]
    if V.is_card(v):
        return str(v)
    if isinstance(v, (int, str, bool, float, type(None))):
        return v
    return repr(v)


# ------------------------------------------------------------------------------------------------


def src_hash(fn):
    try:
        return hashlib.sha256(inspect.getsource(fn).encode()).hexdigest()[:16]
    except Exception:
        return None


def function_guards(c, suffix, exits, obl_names):
    """Vacuity guards of one (variant of a) function contract, on the merged result."""
    if exits.get(suffix + 'return', 0) == 0 and not getattr(c.spec_cls, 'never_returns', False) \
            and not getattr(c, 'never_returns', False):
        return f'{suffix} vacuity: no normal exit is reachable under the contract'.strip()
    mark = c.fn.__qualname__ + suffix
    for k, lc in c.loops.items():
        if lc.invariant is not None and not lc.never_iterates and \
                not any((f'{mark}/loop{k}.preserve' in n or f'{mark}/loop{k}.body' in n)
                        for n in obl_names):
            return (f'{suffix} vacuity: the body of loop {k} was never verified on a feasible '
                    f'path').strip()
    for name, _ in c.covers:
        if exits.get(f'{suffix}cover:{name}', 0) == 0:
            return f'{suffix} vacuity: cover {name!r} is unreachable under the contract'.strip()
    return None


AFTER_FAILURE_PATHS = 40
UNIT_SECONDS = 1800        # one job (a lemma, or one slice of a function's decision tree)


class Verifier:
    def __init__(self, registry, goal_timeout_ms=60000, keep_smt2=False, pid=None):
        self.pid = pid
        self.registry = registry
        self.goal_timeout_ms = goal_timeout_ms
        self.keep_smt2 = keep_smt2

    def explore(self, res, run_path, stack=None, budget=None):
        """Depth-first exploration of the decision tree.  stack: initial scripts (default: the
        root); budget: stop after that many paths and leave the unexplored scripts in res.pending
        (they are independent subtrees and can be explored by other processes)."""
        stack = [[]] if stack is None else [list(x) for x in stack]
        t0 = time.time()
        done = 0
        res.pending = []
        since_fail = 0
        while stack:
            if budget is not None and done >= budget:
                res.pending = stack
                break
            # a failed obligation decides the unit: look a little further (other obligations of
            # the same unit may fail too), then stop instead of exhausting a tree that a broken
            # callee may have made exponentially larger
            if any(o['status'] == 'failed' for o in res.obls.values()):
                since_fail += 1
                if since_fail > AFTER_FAILURE_PATHS:
                    res.truncated = True
                    break
            script = stack.pop()
            done += 1
            res.paths += 1
            if res.paths > MAX_PATHS:
                res.engine_error = 'path limit'
                break
            if time.time() - t0 > UNIT_SECONDS:
                res.engine_error = (f'time budget of {UNIT_SECONDS} s for one job exhausted after '
                                    f'{done} paths (undecided)')
                break
            ctx = Ctx(script, self.goal_timeout_ms, self.keep_smt2)
            it = Interp(ctx, self.registry)
            ended = False
            try:
                run_path(it, ctx, res)
                ended = True
            except PathEnd as e:
                if e.reason == 'loop body verified':
                    ended = True
            except EngineError as e:
                res.engine_error = f'{e} [at {ctx.where}]'
            except RecursionError:
                res.engine_error = 'recursion limit'
            except PyRaise as e:
                res.engine_error = f'uncaught {e}'
            except Exception as e:  # engine bug
                if os.environ.get('PYVC_TRACE'):
                    traceback.print_exc()
                res.engine_error = 'internal: ' + ''.join(
                    traceback.format_exception_only(type(e), e)).strip() + ' @ ' + \
                    traceback.format_exc().splitlines()[-3].strip()
            if ended and ctx.sat_now() != z3.unsat:
                res.covered += 1
                # every call by contract this path went through has a feasible continuation
                for cid in getattr(it, 'calls_passed', ()):
                    it.used.add(f'<call-ok> {cid}')
            for ob in ctx.obligations:
                ce = None
                if ob.status == 'failed' and ob.model is not None:
                    try:
                        ce = {k: describe(concretize(ob.model, v)) for k, v in ctx.entry.items()}
                        ce['__raw__'] = {k: concretize(ob.model, v) for k, v in ctx.entry.items()}
                    except Exception as e:
                        ce = {'__error__': f'reification failed: {e}'}
                res.add(ob, ce)
            res.solver_secs += ctx.solver_secs
            res.used |= it.used
            stack.extend(ctx.alts)
            if res.engine_error:
                break
        res.secs = time.time() - t0
        return res

    # -- function contract -----------------------------------------------------------------------
    def variant_contracts(self, c):
        """[(suffix, contract)]: the contract itself and its scenario variants for this property."""
        out = [('', c)]
        for vname, over in c.variants.items():
            if self.pid is not None and over.get('props') and self.pid not in over['props']:
                continue          # this scenario belongs to another property's check
            import copy as _copy
            c2 = _copy.copy(c)
            c2.params = dict(c.params)
            c2.loops = dict(c.loops)
            c2.variants = {}
            for k, v in over.items():
                if k == 'props':
                    continue
                if k in ('params', 'loops'):
                    getattr(c2, k).update(v)
                else:
                    setattr(c2, k, v)
            out.append((f'[{vname}]', c2))
        return out

    def verify_function(self, c):
        res = None
        for suffix, c2 in self.variant_contracts(c):
            r2 = self._verify_function(c2, suffix)
            if res is None:
                res = r2
                continue
            for n, o in r2.obls.items():
                res.obls[n] = o
            res.paths += r2.paths
            res.covered += r2.covered
            res.secs += r2.secs
            res.solver_secs += r2.solver_secs
            res.queries += r2.queries
            res.used |= r2.used
            for k, v in r2.exits.items():
                res.exits[k] = res.exits.get(k, 0) + v
            if r2.engine_error and not res.engine_error:
                res.engine_error = r2.engine_error
        return res

    def _verify_function(self, c, suffix, stack=None, budget=None, finalize=True):
        res = UnitResult(c.qualname, 'function')
        res.src_sha = src_hash(c.fn)
        short = c.fn.__qualname__ + suffix
        reg = self.registry
        cc = reg.class_contract_of(c)
        sig = inspect.signature(c.fn)

        def run_path(it, ctx, res):
            bound = {}
            joint = c.fresh_params(ctx, it) if c.fresh_params is not None else {}
            for pname, p in sig.parameters.items():
                if pname in joint:
                    bound[pname] = joint[pname]
                elif pname in c.params:
                    bound[pname] = c.params[pname].fresh(ctx, pname)
                elif pname == 'self' and cc is not None and cc.shape is not None:
                    if c.is_init:
                        bound[pname] = SObj(cc.cls)
                    else:
                        bound[pname] = cc.shape.fresh(ctx, 'self')
                elif p.default is not inspect.Parameter.empty:
                    bound[pname] = p.default
                else:
                    raise EngineError(f'{c.qualname}: no shape for parameter {pname}')
            ns = dict(bound)
            for gk, gv in joint.items():
                if gk.startswith('ghost_'):
                    ns[gk] = gv
            if c.split:
                sv = bound[c.split]
                if V.is_card(sv) and isinstance(sv, SObj):
                    rk, st = V.T(sv.fields['rank']), V.T(sv.fields['suit'])
                    combos = [(r, s_) for s_ in range(1, 5) for r in range(2, 15)]
                    ctx.split = ([rk, st], combos,
                                 z3.And(rk >= 2, rk <= 14, st >= 1, st <= 4))
                elif isinstance(sv, SEnum):
                    codes = list(EnumInfo.of(sv.cls).codes)
                    ctx.split = ([sv.t], [(k,) for k in codes], z3.Or([sv.t == k for k in codes]))
            if cc is not None and cc.inv is not None and not c.is_init and c.assume_inv \
                    and 'self' in bound:
                ctx.assume(it.truth(calls.run_inv(it, cc, bound['self'])))
            for name, rfn in c.requires:
                ctx.assume(it.truth(calls.eval_clause(it, rfn, ns)))
            ctx.entry = {k: V.clone_value(v, {}) for k, v in bound.items()
                         if not (c.params_from_ghosts is not None)}
            for gk, gv in joint.items():
                if gk.startswith('ghost_'):
                    ctx.entry[gk] = V.clone_value(gv, {})
            old = calls.make_old(it, bound)
            ns['old'] = old
            ns_old = dict(old.fields)
            ns_old['old'] = old
            for gk, gv in joint.items():
                if gk.startswith('ghost_'):
                    ns_old[gk] = gv
            outcome = None
            it.loops_override = (c.fn, c.loops)
            it.obl_suffix = suffix
            it.top_frames = []
            try:
                result = it.run_body(c.fn, dict(bound))
                outcome = 'return'
            except PyRaise as e:
                outcome = e
            # the locals of the verified activation at its exit, for clauses that take `frame`
            if it.top_frames:
                ns['frame'] = SObj(type('frame', (), {}), dict(it.top_frames[0].locals), frozen=True)
            if outcome == 'return':
                res.exits['return'] = res.exits.get('return', 0) + 1
                ns['result'] = result
                if c.is_init and c.check_fields and cc is not None and cc.shape is not None and \
                        isinstance(bound.get('self'), SObj):
                    # a constructor leaves an object with every field its class contract names
                    shp = calls._obj_shape(cc.shape)
                    late = c.check_fields if isinstance(c.check_fields, (list, tuple)) else ()
                    missing = [f for f in getattr(shp, 'fields', {})
                               if f not in bound['self'].fields and f not in late]
                    if missing:
                        ctx.oblige(f'{short}/post/constructed_object_has_its_fields', False,
                                   where=short)
                        ctx.obligations[-1].detail = f'never assigned: {missing}'
                        return
                for name, efn in c.ensures:
                    ctx.oblige(f'{short}/post/{name}', it.truth(calls.eval_clause(it, efn, ns)),
                               where=short)
                if c.result_fn is not None:
                    spec_val = calls.eval_clause(it, c.result_fn, ns_old)
                    ctx.oblige(f'{short}/post/result', it.eq(result, spec_val), where=short)
                ctx.oblige(f'{short}/frame', calls.frame_condition(it, c, bound, old), where=short)
                if cc is not None and cc.shape is not None and 'self' in bound:
                    from .dsl import Alias as _Alias
                    _shp = calls._obj_shape(cc.shape)
                    _decl = {k: s_.other for k, s_ in getattr(_shp, 'fields', {}).items()
                             if isinstance(s_, _Alias)}
                    ctx.oblige(f'{short}/separation',
                               calls.separation_ok(bound['self'], _decl), where=short)
                for exc, (kind, cfn) in c.raises.items():
                    if kind == 'iff' and cfn is not None:
                        ctx.oblige(f'{short}/noexc/{exc.__name__}',
                                   b_not(it.truth(calls.eval_clause(it, cfn, ns_old))), where=short)
                if cc is not None and cc.inv is not None and c.check_inv and 'self' in bound:
                    ctx.oblige(f'{short}/inv', it.truth(calls.run_inv(it, cc, bound['self'])),
                               where=short)
                for name, cfn in c.covers:
                    # cover: the situation is reachable, i.e. its negation is NOT provable
                    t = it.truth(calls.eval_clause(it, cfn, ns))
                    res.samples  # keep attribute alive
                    if ctx.feasible(V.BT(t)):
                        res.exits[f'cover:{name}'] = res.exits.get(f'cover:{name}', 0) + 1
            else:
                e = outcome
                key = f'raise {e.cls.__name__}'
                if os.environ.get('PYVC_EXIT_LINES'):
                    key += f' @{ctx.where} {e.args[:1]}'
                res.exits[key] = res.exits.get(key, 0) + 1
                decl = None
                for exc in c.raises:
                    if e.cls is exc:
                        decl = exc
                        break
                if decl is None and not issubclass(e.cls, (NameError, AssertionError)):
                    # (a NameError / UnboundLocalError is a reference to a variable that does not
                    # exist, an AssertionError a failed internal assertion: never the "input
                    # refused" a declared base class such as Exception stands for -- they are
                    # covered only by an exact declaration)
                    for exc in c.raises:
                        if issubclass(e.cls, exc):
                            decl = exc
                            break
                if decl is None:
                    ctx.oblige(f'{short}/exc/undeclared-{e.cls.__name__}', False,
                               where=f'{short}: {e}')
                else:
                    kind, cfn = c.raises[decl]
                    if cfn is not None:
                        ctx.oblige(f'{short}/exc/{decl.__name__}',
                                   it.truth(calls.eval_clause(it, cfn, ns_old)), where=short)
                    ns['exc'] = e.cls
                    if not c.exc_havoc:
                        ctx.oblige(f'{short}/excframe', calls.frame_condition(it, c, bound, old),
                                   where=short)
                    for name, efn in c.exc_ensures:
                        ctx.oblige(f'{short}/excpost/{name}',
                                   it.truth(calls.eval_clause(it, efn, ns)), where=short)
                    if cc is not None and cc.inv is not None and c.check_inv and \
                            not c.is_init and 'self' in bound:
                        ctx.oblige(f'{short}/excinv',
                                   it.truth(calls.run_inv(it, cc, bound['self'])),
                                   where=short)

        self.explore(res, run_path, stack, budget)
        if suffix:
            res.exits = {suffix + k: v for k, v in res.exits.items()}
        if finalize and not res.pending:
            err = function_guards(c, suffix, res.exits, res.obls)
            if err and not res.engine_error:
                res.engine_error = err
        return res

    # -- lemma -----------------------------------------------------------------------------------
    def verify_lemma(self, lem):
        res = UnitResult(lem.name, 'lemma')

        def run_path(it, ctx, res):
            ns = {k: s.fresh(ctx, k) for k, s in lem.params.items()}
            ctx.entry = {k: V.clone_value(v, {}) for k, v in ns.items()}
            for name, rfn in lem.requires:
                ctx.assume(it.truth(calls.eval_clause(it, rfn, ns)))
            for name, efn in lem.ensures:
                ctx.oblige(f'lemma/{lem.name}/{name}', it.truth(calls.eval_clause(it, efn, ns)),
                           where=lem.name)

        return self.explore(res, run_path)

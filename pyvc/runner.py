"""Property-level orchestration: units -> obligations -> replay -> evidence -> exit code."""
from __future__ import annotations

import base64
import concurrent.futures as cf
import copy
import hashlib
import json
import multiprocessing as mp
import os
import pickle
import random
import re
import subprocess
import sys
import tempfile
import time
import traceback

from . import load as loader

VERIF = loader.VERIF
OUT = os.environ.get('VERIF_OUT') or VERIF   # scratch runs (mutant self-test) write elsewhere
QUICK_TIMEOUT_MS = 60_000
THOROUGH_TIMEOUT_MS = 300_000

_REG = None
_OPTS = {}


def _init(reg_modules, opts):
    global _REG, _OPTS
    _REG = loader.load(reg_modules)
    _OPTS = opts


def _safe(name):
    return re.sub(r'[^A-Za-z0-9_.-]+', '_', name)[:150]


# ------------------------------------------------------------------------------------------------
# worker side


PART_BUDGET = 48        # paths per subtree job before it hands the rest back
FIRST_BUDGET = 6        # paths explored by the first job of a unit before it hands out subtrees


def _attach_replays(kind, name, d):
    reg = _REG
    for oname, o in d['obls'].items():
        raw = None
        if o['ce'] is not None:
            raw = o['ce'].pop('__raw__', None)
        if o['status'] == 'failed':
            try:
                if kind == 'function':
                    o['replay'] = replay_function(reg, reg.fns[name], oname, raw)
                else:
                    o['replay'] = replay_lemma(reg, reg.lemmas[name], oname, raw)
            except Exception:
                o['replay'] = dict(verdict='replay-error', detail=traceback.format_exc()[-1500:])


def _crash(name, kind, t0, e):
    return dict(name=name, kind=kind, crash=traceback.format_exc(), obls={}, paths=0, covered=0,
                engine_error=f'crash: {e}', secs=time.time() - t0, solver_secs=0, src_sha=None,
                exits={}, queries=0, used=[], pending={})


def verify_unit(unit):
    """First job of a unit: explores FIRST_BUDGET paths of the function contract (and of each of
    its scenario variants) or the whole lemma; unexplored subtrees come back as `pending`
    {variant suffix: [decision scripts]} for other processes.  Failures are replayed natively."""
    from . import verify
    kind, name = unit
    reg = _REG
    v = verify.Verifier(reg, goal_timeout_ms=_OPTS.get('timeout_ms', QUICK_TIMEOUT_MS),
                        keep_smt2=_OPTS.get('keep_smt2', False), pid=_OPTS.get('pid'))
    t0 = time.time()
    try:
        if kind == 'function':
            c = reg.fns[name]
            d = None
            pending = {}
            for suffix, c2 in v.variant_contracts(c):
                r = v._verify_function(c2, suffix, budget=FIRST_BUDGET, finalize=False)
                dd = r.to_dict()
                if r.pending:
                    pending[suffix] = r.pending
                d = dd if d is None else merge_unit_dicts(d, dd)
            d['pending'] = pending
        else:
            d = v.verify_lemma(reg.lemmas[name]).to_dict()
            d['pending'] = {}
    except Exception as e:
        return _crash(name, kind, t0, e)
    _attach_replays(kind, name, d)
    if kind == 'function':
        try:
            _hidden_state_obligation(reg, reg.fns[name], d)
        except Exception as e:
            d['engine_error'] = d.get('engine_error') or f'hidden-state analysis crashed: {e!r}'
    return d


HIDDEN = 'frame/no_state_shared_between_calls'


def _hidden_findings(reg, c, used=()):
    from . import hidden

    def registered(f):
        hit = reg.by_code.get(id(getattr(f, '__code__', None)))
        return hit is not None and hit[1].mode == 'contract' and hit[1] is not c
    fns = [c.fn]
    for q in used:
        cc = reg.fns.get(q)
        if cc is not None and cc.mode == 'transparent':
            fns.append(cc.fn)
    seen = set()
    out = []
    for f in fns:
        out.extend(hidden.analyze(f, registered, seen))
    return out


def _hidden_state_obligation(reg, c, d):
    """`<fn>/frame/no_state_shared_between_calls` (pyvc/hidden.py): discharged syntactically on
    the real function objects; a failure is replayed by a differential native run."""
    from . import hidden
    short = c.fn.__qualname__
    oname = f'{short}/{HIDDEN}'
    t0 = time.time()
    fnd = _hidden_findings(reg, c, d.get('used', []))
    o = dict(status='proved', checks=1, secs=0.0, backends=['syntactic'], ce=None, detail='',
             smt2=None, where=short)
    if fnd:
        o['status'] = 'failed'
        o['detail'] = '; '.join(f'{f.kind}: {f.text}' for f in fnd)
        try:
            rng = random.Random(_OPTS.get('seed', 0))
            o['replay'] = hidden.differential_replay(c, reg, fnd, rng)
        except Exception:
            o['replay'] = dict(verdict='replay-error', detail=traceback.format_exc()[-1200:])
    o['secs'] = round(time.time() - t0, 3)
    d['obls'][oname] = o


def verify_part(job):
    """Explores the subtrees below the given decision scripts of one (variant of a) function."""
    from . import verify
    name, suffix, scripts = job
    reg = _REG
    v = verify.Verifier(reg, goal_timeout_ms=_OPTS.get('timeout_ms', QUICK_TIMEOUT_MS),
                        keep_smt2=_OPTS.get('keep_smt2', False), pid=_OPTS.get('pid'))
    t0 = time.time()
    try:
        c2 = dict(v.variant_contracts(reg.fns[name]))[suffix]
        r = v._verify_function(c2, suffix, stack=scripts, budget=PART_BUDGET, finalize=False)
        d = r.to_dict()
        d['pending'] = {suffix: r.pending} if r.pending else {}
    except Exception as e:
        return _crash(name, 'function', t0, e)
    _attach_replays('function', name, d)
    return d


_RANK = {'proved': 0, 'unknown': 1, 'failed': 2}


def merge_unit_dicts(a, b):
    """Combine the results of two explorations of the same unit."""
    out = dict(a)
    out['paths'] = a['paths'] + b['paths']
    out['covered'] = a['covered'] + b['covered']
    out['secs'] = round(a['secs'] + b['secs'], 3)
    out['solver_secs'] = round(a['solver_secs'] + b['solver_secs'], 3)
    out['queries'] = a['queries'] + b['queries']
    out['used'] = sorted(set(a.get('used', [])) | set(b.get('used', [])))
    out['engine_error'] = a.get('engine_error') or b.get('engine_error')
    ex = dict(a.get('exits', {}))
    for k, n in b.get('exits', {}).items():
        ex[k] = ex.get(k, 0) + n
    out['exits'] = ex
    obls = dict(a['obls'])
    for k, o in b['obls'].items():
        if k not in obls:
            obls[k] = o
            continue
        cur = obls[k]
        best = o if _RANK[o['status']] > _RANK[cur['status']] else cur
        other = cur if best is o else o
        m = dict(best)
        m['checks'] = cur['checks'] + o['checks']
        m['secs'] = round(cur['secs'] + o['secs'], 3)
        m['backends'] = sorted(set(cur['backends']) | set(o['backends']))
        if not m.get('smt2'):
            m['smt2'] = other.get('smt2')
        obls[k] = m
    out['obls'] = obls
    return out


def _lower_args(reg, c, raw):
    from . import native
    args = {}
    cc = reg.class_contract_of(c)
    if c.params_from_ghosts is not None:
        ghosts = {k: native.lower(v) for k, v in raw.items() if k.startswith('ghost_')}
        args = dict(c.params_from_ghosts(ghosts))
        args.update(ghosts)
        return args, None
    for k, v in raw.items():
        x = native.lower(v)
        if k == 'self' and cc is not None and cc.rebuild is not None and not c.is_init:
            y = cc.rebuild(x)
            if y is None:
                return None, 'the model state of self is not reachable through the public API'
            x = y
        args[k] = x
    return args, None


def run_trace(reg, obj0, steps):
    """Drive obj0 through `steps` natively, checking each call against its own contract.
    Returns (index of the first failing step or None, failures, info)."""
    from . import native
    for i, (q, kw) in enumerate(steps):
        fails, info = native.native_check(reg.fns[q], reg, dict(self=obj0, **kw))
        if fails:
            return i, fails, info
        if fails is None:
            return -1, None, info
    return None, [], {}


def random_trace_search(reg, cc, rng, n_traces, max_steps=120, only_unit=None):
    """Random API-level histories on a fresh real object, every call checked natively against its
    own contract.  Returns a record for the first contract failure, or None."""
    from . import native
    checked = 0
    for _ in range(n_traces):
        try:
            obj0, stepper = cc.random_trace(rng)
        except Exception:
            continue
        try:
            start = copy.deepcopy(obj0)
        except Exception:
            start = None
        steps = []
        for i in range(max_steps):
            try:
                st = stepper(obj0, i)
            except Exception:
                break
            if st is None:
                break
            q, kw = st
            steps.append((q, copy.deepcopy(kw)))
            fails, info = native.native_check(reg.fns[q], reg, dict(self=obj0, **kw))
            checked += 1
            if fails:
                return dict(verdict='reproduced-by-search', native_failures=fails, info=info,
                            unit=q,
                            inputs=dict(start=native.describe_native(start),
                                        calls=[(a.split('.')[-1], native.describe_native(b))
                                               for a, b in steps]),
                            trace_pickle_b64=base64.b64encode(
                                pickle.dumps((start, steps))).decode()), checked
            if fails is None:
                break
    return None, checked


def replay_via_trace(reg, c, cc, raw, rec):
    """Counter-model of a method obligation: rebuild the receiver through the public API, checking
    every step; then the offending call itself."""
    from . import native
    from .speclib import same
    model_self = native.lower(raw['self'])
    other = {k: native.lower(v) for k, v in raw.items() if k != 'self'}
    obj0, steps = cc.trace(model_self)
    steps = list(steps) + [(c.qualname, other)]
    start = copy.deepcopy(obj0)
    k, fails, info = run_trace(reg, obj0, steps)
    if k is not None and k >= 0:
        rec.update(verdict='reproduced', native_failures=fails, info=info,
                   inputs=dict(start=native.describe_native(start),
                               calls=[(q.split('.')[-1], native.describe_native(kw))
                                      for q, kw in steps[:k + 1]]),
                   trace_pickle_b64=base64.b64encode(pickle.dumps((start, steps[:k + 1]))).decode())
        return True
    rec['why_not'] = ('the model state is not reachable: replaying the model history through the '
                      'public API satisfies every contract on the way') if k is None else \
        f'trace skipped: {info}'
    return False


def replay_function(reg, c, oname, raw, search=True):
    from . import native
    rec = dict(verdict='no-failing-input-found', native_failures=[], info={})
    cc = reg.class_contract_of(c)
    if oname in c.native_replay:
        try:
            fails, info = c.native_replay[oname]()
        except Exception:
            fails, info = None, {'error': traceback.format_exc()[-600:]}
        rec['info'] = info
        rec['scenario'] = oname
        if fails:
            rec.update(verdict='reproduced', native_failures=fails,
                       inputs=dict(scenario=info.get('scenario')))
        else:
            rec['why_not'] = 'the scripted scenario satisfies the contract on the real code'
        return rec
    if raw is not None and cc is not None and cc.trace is not None and not c.is_init \
            and 'self' in raw:
        try:
            if replay_via_trace(reg, c, cc, raw, rec):
                return rec
        except native.CannotLower as e:
            rec['why_not'] = f'model is not a well-typed input: {e}'
        except Exception:
            rec['why_not'] = 'trace replay error: ' + traceback.format_exc()[-600:]
    elif raw is not None:
        try:
            args, why = _lower_args(reg, c, raw)
        except native.CannotLower as e:
            args, why = None, f'model is not a well-typed input: {e}'
        if args is not None:
            try:
                pk = base64.b64encode(pickle.dumps(copy.deepcopy(args))).decode()
            except Exception:
                pk = None
            inputs = {k: native.describe_native(v) for k, v in args.items()}
            fails, info = native.native_check(c, reg, args)
            rec['info'] = info
            rec['inputs'] = inputs
            if fails:
                rec['verdict'] = 'reproduced'
                rec['native_failures'] = fails
                rec['args_pickle_b64'] = pk
                return rec
            rec['why_not'] = 'the real function satisfies its contract on the model input' \
                if fails is not None else info.get('skipped')
        else:
            rec['why_not'] = why
    if search and cc is not None and cc.random_trace is not None and not c.is_init:
        rng = random.Random(_OPTS.get('seed', 0))
        hit, _n = random_trace_search(reg, cc, rng, _OPTS.get('search_samples', 3000) // 10)
        if hit is not None:
            why = rec.get('why_not')
            rec.update(hit)
            if why:
                rec['model_replay'] = why
            return rec
    if search:
        rng = random.Random(_OPTS.get('seed', 0))
        n = _OPTS.get('search_samples', 3000)
        for _ in range(n):
            try:
                args = native.sample_args(c, reg, rng)
            except Exception:
                break
            if args is None:
                break
            try:
                pk = pickle.dumps(copy.deepcopy(args))
            except Exception:
                pk = b''
            inputs = {k: native.describe_native(v) for k, v in args.items()}
            try:
                fails, info = native.native_check(c, reg, args)
            except Exception:
                continue
            if fails and any(f[0] == oname for f in fails):
                rec.update(verdict='reproduced-by-search', native_failures=fails, info=info,
                           inputs=inputs, args_pickle_b64=base64.b64encode(pk).decode())
                return rec
    return rec


def replay_lemma(reg, lem, oname, raw):
    from . import native
    rec = dict(verdict='no-failing-input-found', native_failures=[], info={})
    if raw is None:
        return rec
    try:
        ns = {k: native.lower(v) for k, v in raw.items()}
    except native.CannotLower as e:
        rec['why_not'] = str(e)
        return rec
    rec['inputs'] = {k: native.describe_native(v) for k, v in ns.items()}
    for name, rfn in lem.requires:
        if not rfn(*native._pick(rfn, ns, list(ns))):
            rec['why_not'] = f'requires {name} false on the model'
            return rec
    for name, efn in lem.ensures:
        try:
            ok = efn(*native._pick(efn, ns, list(ns)))
        except Exception as e:
            ok = False
            rec['info'][name] = repr(e)
        if not ok:
            rec['native_failures'].append((f'lemma/{lem.name}/{name}', 'false natively'))
    if rec['native_failures']:
        rec['verdict'] = 'reproduced'
        rec['args_pickle_b64'] = base64.b64encode(pickle.dumps(ns)).decode()
    return rec


def trace_fuzz(job):
    qual, n, seed = job
    reg = _REG
    cc = reg.classes_by_name[qual]
    rng = random.Random(seed)
    try:
        hit, checked = random_trace_search(reg, cc, rng, n)
    except Exception:
        # the harness itself failed (e.g. a contract clause reads a field the changed code no
        # longer sets): an error of this stand-in, never a crash of the whole check -- the
        # deductive results decide
        return dict(name=f'{qual} (random API histories)', runs=0, skipped=0, failures=[],
                    distinct=0, error='random-history stand-in: ' + traceback.format_exc()[-600:])
    out = dict(name=f'{qual} (random API histories)', runs=checked, skipped=0, failures=[],
               distinct=0)
    if hit is not None:
        out['name'] = hit['unit']
        out['failures'].append(dict(failures=hit['native_failures'], inputs=hit['inputs'],
                                    info=hit['info'], args_pickle_b64=None,
                                    trace_pickle_b64=hit['trace_pickle_b64']))
    return out


def fuzz_unit(job):
    """Bounded stand-in / cross-check: run the real function under its contract natively on random
    in-shape inputs.  Returns dict(name, runs, skipped, failures[...])."""
    from . import native
    name, n, seed = job
    reg = _REG
    c = reg.fns[name]
    rng = random.Random(seed)
    out = dict(name=name, runs=0, skipped=0, failures=[], distinct=0)
    seen = set()
    cc = reg.class_contract_of(c)
    # at least n runs; cheap functions get more (up to 20 n within about half a second), so that
    # history-dependent slips -- a module-level cache keyed too coarsely -- meet a second input
    t_fz = time.time()
    for k_ in range(20 * n):
        if k_ >= n and (time.time() - t_fz > 0.5 or out.get('failures')):
            break
        try:
            args = native.sample_args(c, reg, rng)
        except Exception as e:
            # the sampler drives the real code to build a reachable state; if that raises, the
            # state is simply not used (the trace-based stand-in checks those calls themselves)
            out['sampler_raised'] = out.get('sampler_raised', 0) + 1
            if cc is None or cc.random_trace is None or out['sampler_raised'] > n // 2:
                out['error'] = f'sampler: {e!r}'
                break
            continue
        if args is None:
            out['error'] = 'no sampler'
            break
        try:
            key = hashlib.md5(pickle.dumps(args)).hexdigest()
        except Exception:
            key = str(out['runs'])
        inputs = None
        try:
            pk = pickle.dumps(args)
        except Exception:
            pk = None
        try:
            inputs = {k: native.describe_native(v) for k, v in args.items()}
            fails, info = native.native_check(c, reg, args)
        except Exception as e:
            out['error'] = 'native_check: ' + traceback.format_exc()[-800:]
            break
        if fails is None:
            out['skipped'] += 1
            continue
        out['runs'] += 1
        if key not in seen:
            seen.add(key)
        if fails and len(out['failures']) < 5:
            out['failures'].append(dict(failures=fails, inputs=inputs, info=info,
                                        args_pickle_b64=base64.b64encode(pk).decode() if pk else None))
    out['distinct'] = len(seen)
    return out


# ------------------------------------------------------------------------------------------------
# cvc5 confirmation


def cvc5_check(smt2, timeout_s=60):
    with tempfile.NamedTemporaryFile('w', suffix='.smt2', delete=False) as f:
        f.write(smt2)
        path = f.name
    try:
        r = subprocess.run(['/usr/bin/cvc5', '--lang=smt2', f'--tlimit={timeout_s * 1000}', path],
                           capture_output=True, text=True, timeout=timeout_s + 10)
        out = (r.stdout or '').strip().splitlines()
        return out[0] if out else 'error: ' + (r.stderr or '')[:200]
    except subprocess.TimeoutExpired:
        return 'timeout'
    finally:
        os.unlink(path)


def _cvc5_job(job):
    name, smt2, t = job
    return name, cvc5_check(smt2, t)


# ------------------------------------------------------------------------------------------------
# parent side


def seeded_selftest(pid):
    """Self-test of the check (thorough tier): every committed seeded change for this property
    (/verif/seeded/<id>/patch.diff: a realistic defect from an independent author, confirmed to break
    the property) is applied to a scratch copy of the tree under analysis, and the quick check must
    report a violation there.  A seed that no longer applies to the current tree is skipped."""
    import shutil
    out = dict(kind='seeded-change self-test', seeds=[], lines=[], violations=[])
    root = os.path.join(VERIF, 'seeded')
    if not os.path.isdir(root):
        return out
    for sid in sorted(os.listdir(root)):
        meta_p = os.path.join(root, sid, 'meta.json')
        patch = os.path.join(root, sid, 'patch.diff')
        if not (os.path.exists(meta_p) and os.path.exists(patch)):
            continue
        try:
            meta = json.load(open(meta_p))
        except Exception:
            continue
        caught_by = set((meta.get('check_result') or {}).keys()) | {meta.get('property')}
        if pid not in caught_by:
            continue
        tmp = tempfile.mkdtemp(prefix='selftest_')
        try:
            shutil.copytree(os.path.join(loader.REPO, 'bridge_env'), os.path.join(tmp, 'bridge_env'))
            r = subprocess.run(['git', 'apply', patch], cwd=tmp, capture_output=True, text=True)
            if r.returncode != 0:
                out['seeds'].append(dict(seed=sid, result='skipped: patch does not apply to this tree'))
                continue
            env = dict(os.environ, BRIDGE_ENV_REPO=tmp, VERIF_OUT=os.path.join(tmp, 'out'),
                       VERIF_NO_SELFTEST='1')
            c = subprocess.run([os.path.join(VERIF, 'check'), pid, '--tier', 'quick'], env=env,
                               capture_output=True, text=True)
            names = [ln.split('replays/')[-1] for ln in c.stdout.splitlines()
                     if ln.startswith('VIOLATION')]
            out['seeds'].append(dict(seed=sid, exit=c.returncode, reported=names[:4],
                                     result='caught' if c.returncode == 1 else 'NOT CAUGHT'))
            if c.returncode != 1:
                out.setdefault('selftest_failures', []).append(sid)
        finally:
            shutil.rmtree(tmp, ignore_errors=True)
    return out


def _only():
    """VERIF_ONLY=<substring>[,<substring>...]: restrict a run to the units whose name contains one
    of the substrings (mutation campaigns: only the changed function's own obligations can change,
    verification being modular).  Never used by a registered check: it needs VERIF_OUT, so a partial
    run cannot overwrite an evidence file."""
    o = os.environ.get('VERIF_ONLY')
    if not o:
        return None
    if not os.environ.get('VERIF_OUT'):
        raise SystemExit('VERIF_ONLY needs VERIF_OUT (a partial run must not write evidence)')
    return [x for x in o.split(',') if x]


def units_for_property(reg, pid):
    units = []
    only = _only()
    for q, c in reg.fns.items():
        if pid in c.props and c.mode == 'contract' and c.verify:
            if only is None or any(x in q for x in only):
                units.append(('function', q))
    for n, l in reg.lemmas.items():
        if pid in l.props:
            if only is None or any(x in n for x in only) or 'lemma' in only:
                units.append(('lemma', n))
    return units


def load_known_findings():
    p = os.path.join(VERIF, 'known_findings.json')
    if not os.path.exists(p):
        return []
    return json.load(open(p)).get('findings', [])


def run_property(pid, tier='quick', seed=0, extra_checks=None, modules=None, jobs=None):
    t_start = time.time()
    opts = dict(timeout_ms=THOROUGH_TIMEOUT_MS if tier == 'thorough' else QUICK_TIMEOUT_MS,
                keep_smt2=True, seed=seed, pid=pid,
                search_samples=20000 if tier == 'thorough' else 3000)
    _init(modules, opts)
    reg = _REG
    jobs = jobs or min(16, os.cpu_count() or 4)
    units = units_for_property(reg, pid)
    results = {}
    pending = list(units)
    done = set()
    ctxm = mp.get_context('fork')
    with cf.ProcessPoolExecutor(max_workers=jobs, mp_context=ctxm) as ex:
        futs = {}

        def submit_unit(u):
            done.add(u)
            futs[ex.submit(verify_unit, u)] = ('unit', u)

        for u in pending:
            submit_unit(u)
        while futs:
            for f in cf.as_completed(list(futs)):
                kind_, u = futs.pop(f)
                try:
                    d = f.result()
                except Exception as e:
                    d = dict(name=u[1], kind=u[0], obls={}, paths=0, covered=0,
                             engine_error=f'worker crashed: {e!r}', secs=0, solver_secs=0,
                             src_sha=None, exits={}, queries=0, used=[], pending={})
                results[u] = d if u not in results else merge_unit_dicts(results[u], d)
                # unexplored subtrees of this unit: one job per decision script (none once an
                # obligation of the unit has failed and a few hundred more paths were looked at)
                ru = results[u]
                if any(o['status'] == 'failed' for o in ru['obls'].values()):
                    ru.setdefault('paths_at_failure', ru['paths'])
                stop = 'paths_at_failure' in ru and ru['paths'] - ru['paths_at_failure'] > 400
                for suffix, scripts in d.get('pending', {}).items():
                    for sc in scripts:
                        if stop:
                            ru['truncated'] = True
                            continue
                        futs[ex.submit(verify_part, (u[1], suffix, [sc]))] = ('part', u)
                # closure: contracts relied on at call sites must be verified in this run too
                for q in d.get('used', []):
                    c = reg.fns.get(q)
                    if _only() is not None:
                        continue
                    if c is not None and c.mode == 'contract' and c.verify:
                        uu = ('function', q)
                        if uu not in done:
                            submit_unit(uu)
                break
        # vacuity guards on the merged results
        from . import verify as _vf
        vv = _vf.Verifier(reg, pid=pid)
        for u, d in results.items():
            if u[0] == 'function' and not d.get('engine_error'):
                ok = {q.split()[1] for q in d.get('used', []) if q.startswith('<call-ok> ')}
                fal = sorted((q for q in d.get('used', [])
                              if q.startswith('<call-begin> ') and q.split()[1] not in ok),
                             key=lambda q: q.split(' ', 2)[2])
                d['used'] = [q for q in d.get('used', []) if not q.startswith('<call-')]
                if fal:
                    d['engine_error'] = ('vacuity: no path through a call by contract has a '
                                         'satisfiable continuation (the callee\'s postconditions '
                                         'contradict the state at the call site, so what follows '
                                         'the call is never examined): ' + fal[0].split(' ', 2)[2])
                    continue
                for suffix, c2 in vv.variant_contracts(reg.fns[u[1]]):
                    err = _vf.function_guards(c2, suffix, d.get('exits', {}), d['obls'])
                    if err:
                        d['engine_error'] = err
                        break
        # bounded stand-in / run-time contract cross-check on the real code
        n_fuzz = 2000 if tier == 'thorough' else 150
        fuzz_jobs = [(u[1], n_fuzz, seed + i) for i, u in enumerate(sorted(results))
                     if u[0] == 'function']
        fuzz = list(ex.map(fuzz_unit, fuzz_jobs))
        # API-level random histories, each call checked against its contract (classes only)
        tr_jobs = []
        seen_cls = set()
        for u in sorted(results):
            if u[0] != 'function':
                continue
            cc = reg.class_contract_of(reg.fns[u[1]])
            if cc is not None and cc.random_trace is not None and cc.qualname not in seen_cls:
                seen_cls.add(cc.qualname)
                for k in range(4):
                    tr_jobs.append((cc.qualname, (400 if tier == 'thorough' else 12), seed * 7 + k))
        for r in ex.map(trace_fuzz, tr_jobs):
            fuzz.append(r)
        # cvc5 confirmation of discharged obligations (thorough: all, quick: a sample)
        cv_jobs = []
        for u, d in results.items():
            for oname, o in d['obls'].items():
                if o['status'] == 'proved' and o.get('smt2'):
                    cv_jobs.append((oname, o['smt2'], 60 if tier == 'thorough' else 20))
        rng = random.Random(seed)
        if tier != 'thorough' and len(cv_jobs) > 24:
            cv_jobs = rng.sample(cv_jobs, 24)
        cvc5_res = dict(ex.map(_cvc5_job, cv_jobs)) if cv_jobs else {}
    extra = []
    if extra_checks:
        for fn in extra_checks:
            extra.append(fn(reg, tier, seed))
    if tier == 'thorough' and not os.environ.get('VERIF_NO_SELFTEST'):
        extra.append(seeded_selftest(pid))
    return finish(pid, tier, seed, reg, results, fuzz, cvc5_res, extra, t_start)


def finish(pid, tier, seed, reg, results, fuzz, cvc5_res, extra, t_start):
    known = [k for k in load_known_findings() if k.get('property') == pid]
    violations = []
    undecided = []
    engine_errors = []
    n_obl = 0
    n_dis = 0
    backends = {}
    solver_secs = 0.0
    max_secs = 0.0
    samples = []
    functions = []
    lines = []
    replay_dir = os.path.join(OUT, 'replays', pid)
    for u in sorted(results):
        d = results[u]
        solver_secs += d.get('solver_secs', 0)
        if u[0] == 'function':
            functions.append(dict(function=d['name'], src_sha256_16=d.get('src_sha'),
                                  paths=d['paths'], covered_paths=d['covered'],
                                  exits=d.get('exits', {}), secs=d['secs'],
                                  mode=reg.fns[d['name']].mode))
        if d.get('engine_error'):
            engine_errors.append((d['name'], d['engine_error']))
        if u[0] == 'function' and not d.get('engine_error') and d['covered'] == 0:
            engine_errors.append((d['name'], 'vacuous: no path with a satisfiable path condition'))
        for oname, o in d['obls'].items():
            n_obl += 1
            for b in o['backends']:
                backends[b] = backends.get(b, 0) + 1
            max_secs = max(max_secs, o['secs'])
            if o['status'] == 'proved':
                n_dis += 1
                if o.get('smt2') and len(samples) < 3:
                    samples.append(dict(obligation=oname, unit=d['name'], checks=o['checks'],
                                        smt2_head=o['smt2'][:1500]))
            elif o['status'] == 'failed':
                violations.append((d, oname, o))
            else:
                undecided.append((d['name'], oname, o.get('detail', '')))
    # cvc5 disagreement = engine/solver problem
    disagreements = [n for n, r in cvc5_res.items() if r == 'sat']
    # run-time contract failures found by the bounded harness on the real code
    fuzz_fail = []
    fuzz_runs = 0
    fuzz_errors = []
    for fz in fuzz:
        fuzz_runs += fz['runs']
        if fz.get('error') and fz['error'] != 'no sampler':
            fuzz_errors.append((fz['name'], fz['error']))
        for fl in fz['failures']:
            fuzz_fail.append((fz['name'], fl))
    vio_out = []
    known_out = []
    exit_code = 0
    os.makedirs(replay_dir, exist_ok=True)

    def is_known(oname, witness_text):
        for k in known:
            if k.get('status', 'open') != 'open':
                continue
            if k.get('obligation') == oname and (not k.get('witness_match') or
                                                 re.search(k['witness_match'], witness_text)):
                return k
        return None

    for d, oname, o in violations:
        rp = o.get('replay', {})
        verdict = rp.get('verdict', 'no-failing-input-found')
        rec = dict(property=pid, obligation=oname, unit=d['name'], verdict=verdict,
                   counter_model=o.get('ce'), replay=rp, solver_goal=o.get('detail'),
                   where=o.get('where'), smt2=o.get('smt2'))
        path = os.path.join(replay_dir, _safe(oname) + '.json')
        json.dump(rec, open(path, 'w'), indent=1, default=str)
        wtxt = json.dumps(rp.get('inputs', o.get('ce')), default=str)
        k = is_known(oname, wtxt)
        if k is not None:
            lines.append(f'KNOWN-FINDING: property={pid} {k.get("what", oname)}')
            # a recorded finding is reported, not claimed: it is not among the obligations whose
            # discharge the proof-level claim counts
            n_obl -= 1
            known_out.append(dict(obligation=oname, what=k.get('what'), verdict=verdict, replay=path))
            continue
        suffix = '' if verdict.startswith('reproduced') else ' no-failing-input-found'
        lines.append(f'VIOLATION property={pid} replay={path}{suffix}')
        vio_out.append(dict(obligation=oname, verdict=verdict, replay=path))
        exit_code = 1
    for name, fl in fuzz_fail:
        oname = fl['failures'][0][0]
        if any(v['obligation'] == oname for v in vio_out):
            continue
        wtxt = json.dumps(fl.get('inputs'), default=str)
        k = is_known(oname, wtxt)
        if k is not None:
            ln = f'KNOWN-FINDING: property={pid} {k.get("what", oname)}'
            if ln not in lines:
                lines.append(ln)
            continue
        path = os.path.join(replay_dir, _safe(oname) + '.runtime.json')
        json.dump(dict(property=pid, obligation=oname, unit=name, verdict='reproduced',
                       found_by='run-time contract check on random inputs (bounded stand-in)',
                       replay=dict(verdict='reproduced', native_failures=fl['failures'],
                                   inputs=fl['inputs'], info=fl['info'],
                                   args_pickle_b64=fl.get('args_pickle_b64'),
                                   trace_pickle_b64=fl.get('trace_pickle_b64'))),
                  open(path, 'w'), indent=1, default=str)
        lines.append(f'VIOLATION property={pid} replay={path}')
        vio_out.append(dict(obligation=oname, verdict='reproduced (run-time contract)', replay=path))
        exit_code = 1
    for ex_ in extra:
        for ln in ex_.get('lines', []):
            lines.append(ln)
        if ex_.get('violations'):
            exit_code = 1
            vio_out.extend(ex_['violations'])
        n_obl += ex_.get('obligations', 0)
        n_dis += ex_.get('discharged', 0)
    for ex_ in extra:
        for sid in ex_.get('selftest_failures', []):
            engine_errors.append(('self-test', f'the seeded change seeded/{sid} is not reported by '
                                               f'this check any more'))
    if exit_code == 0:
        if engine_errors or disagreements or fuzz_errors:
            exit_code = 3
        elif undecided:
            exit_code = 2
    if n_obl == 0 and exit_code == 0:
        exit_code = 3
        engine_errors.append(('-', 'zero obligations generated'))
    wall = time.time() - t_start
    assumptions = sorted(set(sum((reg_assumptions(reg, results)), [])))
    evidence = dict(
        property_id=pid, tier=tier, seed=seed, level='proof',
        coverage=dict(
            obligations=n_obl, discharged=n_dis,
            checker_cmd=f'./check {pid} --tier {tier}',
            trusted_base=['pyvc symbolic evaluator (/verif/pyvc) and its Python-subset semantics',
                          'z3 4.x/5.x (python API) as deciding back end; cvc5 1.0.3 as confirmer',
                          'CPython for constant folding and for native replay',
                          'sidecar contracts and spec functions under /verif/contracts, /verif/spec'],
            backends=backends,
            solver_queries=sum(d.get('queries', 0) for d in results.values()),
            solver_seconds=round(solver_secs, 2), max_obligation_seconds=round(max_secs, 2),
            paths=sum(d['paths'] for d in results.values()),
            functions_under_contract=functions,
            lemmas=[d['name'] for u, d in results.items() if u[0] == 'lemma'],
            cvc5_confirmations=dict(checked=len(cvc5_res),
                                    unsat=sum(1 for r in cvc5_res.values() if r == 'unsat'),
                                    other={n: r for n, r in cvc5_res.items() if r != 'unsat'}),
            bounded=dict(kind='run-time contract check of the real functions on random in-shape '
                              'inputs (bounded stand-in / cross-check; never counted as proved)',
                         runs=fuzz_runs, per_function={fz['name']: fz['runs'] for fz in fuzz if fz['runs']},
                         failures=len(fuzz_fail)),
            extra=[{k: v for k, v in e.items() if k not in ('lines', 'violations')} for e in extra],
            undecided=[dict(unit=a, obligation=b, reason=c) for a, b, c in undecided],
            engine_errors=[dict(unit=a, error=b) for a, b in engine_errors + fuzz_errors],
            samples=samples or [dict(note='no SMT sample (all obligations syntactic)')],
            violations=vio_out,
            known_findings=known_out,
        ),
        assumptions=assumptions,
        wall_s=round(wall, 2),
        violations=len(vio_out),
    )
    os.makedirs(os.path.join(OUT, 'evidence'), exist_ok=True)
    json.dump(evidence, open(os.path.join(OUT, 'evidence', f'{pid}.json'), 'w'), indent=1,
              default=str)
    for ln in lines:
        print(ln)
    status = {0: 'HOLDS', 1: 'VIOLATED', 2: 'UNDECIDED', 3: 'CHECKER-ERROR'}[exit_code]
    print(f'{pid}: {status}  obligations={n_obl} discharged={n_dis} units={len(results)} '
          f'paths={evidence["coverage"]["paths"]} solver_s={solver_secs:.1f} wall_s={wall:.1f}')
    for a, b, c in undecided[:10]:
        print(f'  UNDECIDED {b} ({a}): {c[:200]}')
    for a, b in (engine_errors + fuzz_errors)[:10]:
        print(f'  ENGINE {a}: {b[:400]}')
    for n in disagreements:
        print(f'  SOLVER-DISAGREEMENT {n}: z3 unsat, cvc5 sat')
    return exit_code


def reg_assumptions(reg, results):
    out = []
    base = [
        'Python ints are mathematical integers (exact); // and % only with positive constant divisors',
        'logger.*() and print() calls are dropped by the extraction (assumed side-effect free)',
        'Enum members are singletons: `is` on them is equality of the encoded value',
    ]
    out.append(base)
    for u, d in results.items():
        if u[0] != 'function':
            continue
        c = reg.fns[d['name']]
        if c.note:
            out.append([f'{d["name"]}: {c.note}'])
        for q in d.get('used', []):
            if q.startswith('<skipped-at-call>') or q.startswith('<call-'):
                continue
            if q.startswith('<ext> '):
                from .ext import EXT_ASSUMPTIONS
                key = q[6:]
                txt = EXT_ASSUMPTIONS.get(key) or EXT_ASSUMPTIONS.get(key.split('.')[0] + '.wait')
                out.append([f'ASSUMED external contract ({key}): {txt or "no effect on the data"}'])
                continue
            if q.startswith('<model> '):
                LIB = {
                    'json.dumps': 'json.dumps(v) is a one-line text with json.loads(json.dumps(v)) == v '
                                  'for JSON-able v with str keys',
                    'random.shuffle': 'random.shuffle permutes the list (bijection between items and '
                                      'positions)',
                    'random.choice': 'random.choice(xs) returns an element of the non-empty xs',
                    'copy.deepcopy': 'copy.deepcopy returns a fresh object graph equal to the original',
                    'time.sleep': 'time.sleep has no effect on the data',
                }
                key = q[8:]
                txt = LIB.get(key)
                if key.startswith('re.'):
                    txt = ('concrete subjects go to CPython re; structured subjects to the symbolic '
                           'matcher of pyvc.xregex (differential self-check against re at every call)')
                if key.startswith('numpy.'):
                    txt = 'numpy zeros/ones/where/index stores behave as on fixed-length vectors of numbers'
                if key.startswith('threading.') or key.startswith('queue.'):
                    txt = 'thread / queue objects: see the external contracts'
                out.append([f'ASSUMED library contract ({key}): {txt or "modelled in pyvc/models.py"}'])
                continue
            if q.startswith('<abstract> '):
                out.append([f'{q[11:]} is used abstractly in {d["name"]} on messages about which '
                            f'nothing is known: it may raise or return a value that is a function '
                            f'of its arguments (its round-trip contract is proved as its own unit)'])
                continue
            if q.startswith('<lemma>'):
                out.append([f'TRUSTED mathematical lemma used by the evaluator in {d["name"]}: '
                            f'{q[8:]}'])
                continue
            cc = reg.fns.get(q)
            if cc is not None and cc.mode == 'contract' and cc.inline_at_calls:
                out.append([f'{q} is inlined at call sites (its own contract is verified as a unit; '
                            f'it speaks about ghost parameters)'])
            if cc is not None and cc.mode == 'transparent':
                out.append([f'{q} is inlined (transparent), not abstracted by a contract'])
            if cc is not None and cc.mode == 'contract' and not cc.verify:
                out.append([f'ASSUMED (unverified) contract: {q}'])
    return out


def replay_file(path):
    """Re-run a replay file against the current tree.  Prints REPRODUCED / NOT-REPRODUCED."""
    rec = json.load(open(path))
    _init(None, dict(seed=0))
    reg = _REG
    from . import native
    rp = rec.get('replay', {})
    pk = rp.get('args_pickle_b64')
    if rp.get('scenario') and rec['unit'] in reg.fns and \
            rp['scenario'] in reg.fns[rec['unit']].native_replay:
        fails, info = reg.fns[rec['unit']].native_replay[rp['scenario']]()
        if fails:
            print('REPRODUCED', json.dumps(fails), json.dumps(info, default=str)[:500])
            return 0
        print('NOT-REPRODUCED', json.dumps(info, default=str)[:500])
        return 1
    if rp.get('trace_pickle_b64'):
        start, steps = pickle.loads(base64.b64decode(rp['trace_pickle_b64']))
        k, fails, info = run_trace(reg, start, steps)
        if k is not None and k >= 0:
            print('REPRODUCED', json.dumps(fails), json.dumps(info, default=str)[:500])
            return 0
        print('NOT-REPRODUCED', json.dumps(info, default=str)[:500])
        return 1
    if rp.get('pair_pickle_b64') and rec['unit'] in reg.fns:
        from . import hidden
        c = reg.fns[rec['unit']]
        a, y = pickle.loads(base64.b64decode(rp['pair_pickle_b64']))
        fnd = _hidden_findings(reg, c, [q for q, cc in reg.fns.items() if cc.mode == 'transparent'])
        fails, info = hidden.replay_pair(c, reg, fnd, a, y)
        if fails:
            print('REPRODUCED', json.dumps(fails), json.dumps(info, default=str)[:500])
            return 0
        print('NOT-REPRODUCED', json.dumps(info, default=str)[:500])
        return 1
    if not pk:
        print('NOT-REPRODUCED (the replay file carries no concrete input: '
              'the violation was reported as no-failing-input-found)')
        print('failed obligation:', rec.get('obligation'))
        return 1
    args = pickle.loads(base64.b64decode(pk))
    unit = rec['unit']
    if unit in reg.fns:
        fails, info = native.native_check(reg.fns[unit], reg, args)
    else:
        lem = reg.lemmas[unit]
        fails = []
        for name, efn in lem.ensures:
            if not efn(*native._pick(efn, args, list(args))):
                fails.append((f'lemma/{lem.name}/{name}', 'false natively'))
        info = {}
    if fails:
        print('REPRODUCED', json.dumps(fails), json.dumps(info, default=str)[:500])
        return 0
    print('NOT-REPRODUCED', json.dumps(info, default=str)[:500])
    return 1

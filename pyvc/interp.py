"""Symbolic evaluator over the Python AST (see DESIGN.md section 2 and Appendix C).

Execution model: one path at a time, re-executed from the start under a decision script
(ctx.Ctx).  Branches on symbolic conditions are first tried *speculatively* on both sides and
merged slot-by-slot with ite-terms; when that is impossible (exceptional exit, unmergeable values)
the path forks.  Calls into /repo go through the contract registry (call-by-contract, or inlined
for functions declared transparent).
"""
from __future__ import annotations

import ast
import builtins
import dataclasses
import enum
import inspect
import operator
import textwrap
import types

import z3

from . import speclib
from . import values as V
from .ctx import Ctx, NeedFork, PathEnd
from .values import (BT, T, BoundMethod, CannotMerge, Closure, EngineError, EnumInfo, Frame,
                     GList, Mut, SBool, SCardSet, SDict, SEnum, SInt, SList, SObj, SOpt, SSeq,
                     SSet, SStr, SuperProxy, SVec, Sym, UNBOUND, b_and, b_implies, b_ite, b_not,
                     b_or, is_bool_like, is_card, is_enum_like, is_int_like, mk_bool, mk_card,
                     mk_enum, mk_int, mk_opt)


class PyRaise(Exception):
    """A Python exception raised by the program under analysis."""

    def __init__(self, cls, args=(), note=''):
        super().__init__(f'{cls.__name__}{args!r} {note}')
        self.cls = cls
        self.eargs = args


class ReturnSig(Exception):
    def __init__(self, value):
        self.value = value


class BreakSig(Exception):
    pass


class ContinueSig(Exception):
    pass


class ExcValue:
    """An exception instance created by the program (raise X(...))."""

    def __init__(self, cls, args):
        self.cls = cls
        self.args = args


class BuiltinMethod:
    def __init__(self, obj, name):
        self.obj = obj
        self.name = name


class NativeMatch:
    """Wrapper marking a concrete re.Match result."""


# ------------------------------------------------------------------------------------------------
# source access

_fn_cache = {}
_TABLE_CACHE = {}


def get_funcdef(fn):
    code = fn.__code__
    hit = _fn_cache.get(id(code))      # by identity: distinct functions may have equal code objects
    r = hit[1] if hit is not None and hit[0] is code else None
    if r is None:
        src = textwrap.dedent(inspect.getsource(fn))
        tree = ast.parse(src)
        node = tree.body[0]
        if not isinstance(node, (ast.FunctionDef, ast.AsyncFunctionDef)):
            raise EngineError(f'cannot get def of {fn}')
        r = (node, src)
        _fn_cache[id(code)] = (code, r)
    return r


def defining_class(fn):
    qn = fn.__qualname__.split('.')
    if len(qn) < 2:
        return None
    obj = fn.__globals__.get(qn[0])
    for part in qn[1:-1]:
        if obj is None:
            return None
        if part == '<locals>':
            return None
        obj = getattr(obj, part, None)
    return obj if isinstance(obj, type) else None


def qualname_of(fn):
    return f'{fn.__module__}.{fn.__qualname__}'


def is_repo_fn(fn):
    return (getattr(fn, '__module__', '') or '').split('.')[0] == 'bridge_env'


def assigned_names(nodes):
    out = set()
    for n in nodes:
        for x in ast.walk(n):
            if isinstance(x, ast.Name) and isinstance(x.ctx, (ast.Store, ast.Del)):
                out.add(x.id)
    return out


_PURE_NATIVE_TYPES = (int, float, str, bytes, bool, type(None), tuple, frozenset, enum.Enum)


def is_native(v):
    """Value that carries no symbolic content and is not one of our containers."""
    if isinstance(v, (Sym, Mut, GList, BoundMethod, Closure, SuperProxy, ExcValue, BuiltinMethod)):
        return False
    if isinstance(v, tuple):
        return all(is_native(x) for x in v)
    return True


# ------------------------------------------------------------------------------------------------


class Interp:
    MAX_STEPS = 2_000_000

    def __init__(self, ctx: Ctx, registry=None, concrete=False):
        self.ctx = ctx
        self.registry = registry
        self.steps = 0
        self.concrete = concrete
        self.call_depth = 0
        self.current_fn = []
        self.used = set()
        from . import models
        self.models = models.MODELS
        self.models_mod = models

    # ============================================================================================
    # speculation / merging

    def _mark(self):
        c = self.ctx
        return (c.pos, len(c.pc), len(c.obligations), dict(c.counters), len(c.muts),
                len(self.__dict__.get('call_log', ())))

    def _rollback(self, mark, snap):
        c = self.ctx
        snap.restore()
        pos, npc, nobl, counters, nmuts, ncalls = mark
        if 'call_log' in self.__dict__:
            del self.call_log[ncalls:]
        del c.pc[npc:]
        del c.obligations[nobl:]
        c.counters = counters
        del c.muts[nmuts:]

    def _run_branch(self, cond_t, thunk):
        """Run thunk under the extra assumption cond_t in no-fork mode.  Returns
        (result, assumptions made inside)."""
        c = self.ctx
        c.solver.push()
        saved_log = c.assume_log
        c.assume_log = []
        npc = len(c.pc)
        c.nofork += 1
        try:
            c.pc.append(cond_t)
            c.solver.add(cond_t)
            r = thunk()
            made = list(c.assume_log)
            return r, made
        finally:
            c.nofork -= 1
            del c.pc[npc:]
            c.assume_log = saved_log
            c.solver.pop()

    def merged_branches(self, cond, then_thunk, else_thunk, want_value):
        """Try to run both thunks and merge the states (and values).  Returns (True, value) on
        success, (False, None) when the caller must fork instead."""
        c = self.ctx
        rec = c.spec_record()
        if rec is False:
            c.spec_record(False)
            return False, None
        cond_t = z3.simplify(BT(cond))
        p0 = c.pos
        fresh = rec is None
        c.spec_record(True)
        mark = self._mark()
        snap0 = V.Snapshot()
        try:
            v1, made1 = self._run_branch(cond_t, then_thunk)
            snap1 = V.Snapshot()
            snap0.restore()
            v2, made2 = self._run_branch(z3.Not(cond_t), else_thunk)
            # merge live state (after else) with snap1 (after then)
            for oid, m in snap0.muts.items():
                s1 = snap1.saved[oid]
                s2 = m.get_slots()
                if isinstance(m, Frame) and s1.keys() != s2.keys():
                    # a local bound in one branch only: keep the bound value and remember that
                    # the name may be unbound (reading it before the next assignment is an
                    # engine error, not a guess)
                    out = {}
                    for k in list(s1.keys()) + [k for k in s2 if k not in s1]:
                        a, b = s1.get(k, UNBOUND), s2.get(k, UNBOUND)
                        if a is UNBOUND or b is UNBOUND:
                            out[k] = b if a is UNBOUND else a
                            m.maybe_unbound.add(k)
                        else:
                            out[k] = self._merge_val(cond_t, a, b)
                    m.set_slots(out)
                    continue
                m.set_slots(self._merge_slots(cond_t, s1, s2))
            val = V.merge(cond_t, v1, v2) if want_value else None
        except (NeedFork, PyRaise, ReturnSig, BreakSig, ContinueSig, CannotMerge, PathEnd,
                EngineError) as e:
            if isinstance(e, EngineError):
                # a construct out of reach inside a speculated branch only matters if that branch
                # is feasible: fall back to deciding the condition (which checks feasibility)
                self._rollback(mark, snap0)
                if c.feasible(cond_t) and c.feasible(z3.Not(cond_t)):
                    raise
                del c.script[p0:]
                c.script.append(('s', False))
                c.pos = p0 + 1
                return False, None
            if not fresh:
                raise EngineError(f'speculation replay diverged: {type(e).__name__} {e}')
            self._rollback(mark, snap0)
            del c.script[p0:]
            c.script.append(('s', False))
            c.pos = p0 + 1
            return False, None
        for a in made1:
            c.add_pc(z3.Implies(cond_t, a))
        for a in made2:
            c.add_pc(z3.Implies(z3.Not(cond_t), a))
        return True, val

    def _merge_slots(self, cond_t, s1, s2):
        if isinstance(s1, dict):
            if s1.keys() != s2.keys():
                # a key bound on one side only
                out = {}
                for k in list(s1.keys()) + [k for k in s2 if k not in s1]:
                    out[k] = self._merge_val(cond_t, s1.get(k, UNBOUND), s2.get(k, UNBOUND))
                return out
            out = {}
            for k in s1:
                try:
                    out[k] = self._merge_val(cond_t, s1[k], s2[k])
                except CannotMerge as e:
                    raise CannotMerge(f'{e} (slot {k!r}: {type(s1[k]).__name__} / {type(s2[k]).__name__})')
            return out
        if isinstance(s1, list):
            if len(s1) != len(s2):
                raise CannotMerge('list length')
            return [self._merge_val(cond_t, a, b) for a, b in zip(s1, s2)]
        if isinstance(s1, set):
            if s1 != s2:
                raise CannotMerge('set')
            return s1
        raise EngineError('slots')

    def _merge_val(self, cond_t, a, b):
        if a is b:
            return a
        if isinstance(a, z3.ExprRef) and isinstance(b, z3.ExprRef):
            if a.eq(b):
                return a
            return z3.If(cond_t, a, b)
        if isinstance(a, z3.ExprRef) or isinstance(b, z3.ExprRef):
            # SSeq slot n may be python int on one side
            return z3.If(cond_t, T(a), T(b))
        def mutable(x):
            return isinstance(x, Mut) and not (isinstance(x, SObj) and x.frozen)
        if mutable(a) or mutable(b):
            raise CannotMerge('distinct objects')
        return V.merge(cond_t, a, b)

    # ============================================================================================
    # truth / decisions

    def truth(self, v):
        """python bool or SBool/BoolRef-like (normalised through mk_bool)."""
        if isinstance(v, bool):
            return v
        if isinstance(v, SBool):
            return v
        if v is None:
            return False
        if isinstance(v, SInt):
            return mk_bool(v.t != 0)
        if isinstance(v, SOpt):
            return b_and(b_not(mk_bool(v.isnone)), self.truth(v.inner))
        if isinstance(v, (enum.Enum, SEnum)):
            return True
        if isinstance(v, SList):
            return len(v.items) > 0
        if isinstance(v, SDict):
            return len(v.d) > 0
        if isinstance(v, SCardSet):
            return b_or(*v.guards)
        if isinstance(v, GList):
            return b_or(*[g for g, _ in v.items])
        if isinstance(v, SSeq):
            return mk_bool(T(v.n) > 0)
        if type(v).__name__ == 'SBytes':
            return mk_bool(T(v.n) > 0)       # a byte string is true iff it is not empty
        if isinstance(v, (bytes, bytearray)):
            return len(v) > 0
        if isinstance(v, SSet):
            return len(v.items) > 0
        if isinstance(v, SObj):
            return True
        if isinstance(v, (BoundMethod, Closure, ExcValue)):
            return True
        from .strings import XStr
        if isinstance(v, XStr):
            return v.nonempty()
        if type(v).__name__ in ('AbsLine', 'OpaqueMatch'):
            return True
        if type(v).__name__ == 'SCharSeq':
            return mk_bool(T(v.n) > 0)
        if type(v).__name__ == 'SExt':
            if v.kind in ('boardlist', 'itemlist'):
                return mk_bool(T(v.fields['n']) > 0)       # a list: true iff non-empty
            if v.kind in ('socket', 'ssocket', 'queue', 'event', 'file', 'jsonfile', 'thread'):
                return True                                   # objects without __len__/__bool__
            raise EngineError(f'truth of an external object of kind {v.kind}')
        if isinstance(v, (Sym, Mut)):
            raise EngineError(f'truth of {v!r}')
        return bool(v)

    def decide(self, v):
        return self.ctx.decide(self.truth(v))

    def concretize_enum(self, v):
        if isinstance(v, enum.Enum):
            return v
        info = EnumInfo.of(v.cls)
        code = self.ctx.decide_among(v.t, info.codes)
        return info.by_code[code]

    def concretize_int(self, v, lo, hi):
        if isinstance(v, int):
            return v
        return self.ctx.decide_among(v.t, list(range(lo, hi + 1)))

    def unopt(self, v, what='value'):
        """Strip Optional: forks on None-ness.  Returns None or the inner value."""
        if isinstance(v, SOpt):
            if self.ctx.decide(mk_bool(v.isnone)):
                return None
            return v.inner
        return v

    # ============================================================================================
    # equality / comparison

    def eq(self, a, b):
        if a is b and not isinstance(a, float):
            return True
        if a is None or b is None or isinstance(a, SOpt) or isinstance(b, SOpt):
            ia, va = V._split_opt(a)
            ib, vb = V._split_opt(b)
            both_none = b_and(ia, ib)
            if va is None or vb is None:
                return both_none
            return b_or(both_none, b_and(b_not(ia), b_not(ib), self.eq(va, vb)))
        if is_bool_like(a) and is_bool_like(b):
            if isinstance(a, bool) and isinstance(b, bool):
                return a == b
            return mk_bool(BT(a) == BT(b))
        from . import ext as _ext
        if isinstance(a, _ext.SByte1) or isinstance(b, _ext.SByte1):
            return _ext.bytes_eq(self, a, b)
        if isinstance(a, _ext.SDecoded) or isinstance(b, _ext.SDecoded):
            d, other = (a, b) if isinstance(a, _ext.SDecoded) else (b, a)
            return _ext.decoded_eq(self, d, other)
        if isinstance(a, _ext.SDecodedLower) or isinstance(b, _ext.SDecodedLower):
            d, other = (a, b) if isinstance(a, _ext.SDecodedLower) else (b, a)
            return _ext.decoded_lower_eq(self, d, other)
        if isinstance(a, _ext.SChar) or isinstance(b, _ext.SChar):
            ch, other = (a, b) if isinstance(a, _ext.SChar) else (b, a)
            if isinstance(other, _ext.SChar):
                return mk_bool(T(ch.code) == T(other.code))
            if isinstance(other, str):
                return mk_bool(T(ch.code) == ord(other)) if len(other) == 1 else False
            return False
        if isinstance(a, _ext.SCharSeq) and isinstance(b, _ext.SCharSeq):
            if a.arr.eq(b.arr) and z3.simplify(T(a.off) == T(b.off)).eq(z3.BoolVal(True)):
                return mk_bool(T(a.n) == T(b.n))
            k = self.ctx.fresh_int('chr')
            return mk_bool(z3.And(T(a.n) == T(b.n), z3.ForAll([k], z3.Implies(
                z3.And(k >= 0, k < T(a.n)),
                z3.Select(a.arr, T(a.off) + k) == z3.Select(b.arr, T(b.off) + k)))))
        if isinstance(a, _ext.AbsFirstChar) or isinstance(b, _ext.AbsFirstChar):
            fc, lit = (a, b) if isinstance(a, _ext.AbsFirstChar) else (b, a)
            if lit == '%':
                return mk_bool(fc.line.kind() == _ext.LINE_PERCENT)
            raise EngineError('comparison of the first character of an abstract line')
        if isinstance(a, _ext.AbsLine) and isinstance(b, _ext.AbsLine):
            return mk_bool(T(a.id) == T(b.id))
        from .dsl import OpaqueVal as _OV
        if isinstance(a, _OV.Val) and isinstance(b, _OV.Val):
            return a.name == b.name
        if isinstance(a, _ext.JDump) and isinstance(b, _ext.JDump):
            return self.eq(a.v, b.v)      # as JSON values (object key order is immaterial)
        if isinstance(a, _ext.JDump) or isinstance(b, _ext.JDump):
            return False       # a JSON record text is never one of the framing literals
        if (is_int_like(a) or isinstance(a, float)) and (is_int_like(b) or isinstance(b, float)):
            if not isinstance(a, Sym) and not isinstance(b, Sym):
                return a == b
            return mk_bool(T(a) == T(b))
        if is_bool_like(a) and is_int_like(b) or is_int_like(a) and is_bool_like(b):
            ta = z3.If(BT(a), 1, 0) if is_bool_like(a) else T(a)
            tb = z3.If(BT(b), 1, 0) if is_bool_like(b) else T(b)
            return mk_bool(ta == tb)
        if is_enum_like(a) or is_enum_like(b):
            if is_enum_like(a) and is_enum_like(b):
                if V.enum_cls_of(a) is not V.enum_cls_of(b):
                    return False
                if isinstance(a, enum.Enum) and isinstance(b, enum.Enum):
                    return a is b
                return mk_bool(T(a) == T(b))
            return False
        from .strings import XStr, str_eq
        if isinstance(a, (str, XStr)) and isinstance(b, (str, XStr)):
            if isinstance(a, str) and isinstance(b, str):
                return a == b
            return str_eq(self, a, b)
        if isinstance(a, tuple) and isinstance(b, tuple):
            if len(a) != len(b):
                return False
            return b_and(*[self.eq(x, y) for x, y in zip(a, b)])
        if isinstance(a, SList) and isinstance(b, SList):
            pa = len(a.items) >= 1 and a.items[0] is V.PENDING
            pb = len(b.items) >= 1 and b.items[0] is V.PENDING
            if pa or pb:
                if not getattr(self, 'assuming', 0) or (pa and pb) or \
                        len((a if pa else b).items) != 1:
                    raise V.PendingRead('a trace is read before a postcondition has defined it')
                # defining equation of a havocked trace (callee postcondition new == old + [...])
                if pa:
                    a.items = list(b.items)
                else:
                    b.items = list(a.items)
                return True
            if len(a.items) != len(b.items):
                return False
            return b_and(*[self.eq(x, y) for x, y in zip(a.items, b.items)])
        if is_card(a) and is_card(b):
            ra, sa = V.card_fields(a)
            rb, sb = V.card_fields(b)
            return b_and(self.eq(ra, rb), self.eq(sa, sb))
        if isinstance(a, SCardSet) and isinstance(b, SCardSet):
            return b_and(*[self.eq_bool(x, y) for x, y in zip(a.guards, b.guards)])
        if isinstance(a, V.SMap) or isinstance(b, V.SMap):
            return V.smap_eq(self, a, b)
        if isinstance(a, SSeq) or isinstance(b, SSeq):
            return self.seq_eq(a, b)
        if isinstance(a, SVec) and isinstance(b, SVec):
            if len(a.slots) != len(b.slots):
                return False
            return b_and(*[self.eq(x, y) for x, y in zip(a.slots, b.slots)])
        if isinstance(a, SVec) and (is_int_like(b) or isinstance(b, (float, bool, SBool))):
            # numpy: vector == scalar is element-wise
            return SVec([self.eq(x, b) for x in a.slots], 'bool')
        if isinstance(a, SDict) and isinstance(b, SDict):
            if set(a.d.keys()) != set(b.d.keys()):
                return False
            return b_and(*[self.eq(a.d[k], b.d[k]) for k in a.d])
        if isinstance(a, SSet) and isinstance(b, SSet):
            return a.items == b.items
        if isinstance(a, GList) and isinstance(b, GList):
            return self.glist_eq(a, b)
        if isinstance(a, SObj):
            f = self.lookup_class_attr(a.cls, '__eq__')
            if f is not None and is_repo_fn(f) and \
                    getattr(getattr(f, '__code__', None), 'co_filename', '') != '<string>':
                return self.call_function(f, [a, b], {})
            if isinstance(b, SObj) and a.cls is b.cls and dataclasses.is_dataclass(a.cls):
                return b_and(*[self.eq(a.fields[k], b.fields[k]) for k in a.fields])
            if isinstance(b, SObj) and a.cls is b.cls and issubclass(a.cls, tuple):
                return b_and(*[self.eq(a.fields[k], b.fields[k]) for k in a.fields])
            return a is b
        if isinstance(b, SObj):
            return self.eq(b, a)
        if isinstance(a, (Sym, Mut)) or isinstance(b, (Sym, Mut)):
            if type(a) is not type(b):
                if isinstance(a, Sym) and isinstance(b, Sym) and not (
                        isinstance(a, (SInt, SBool, SEnum, SOpt)) or
                        isinstance(b, (SInt, SBool, SEnum, SOpt))):
                    # two symbolic values of different representations may still denote equal
                    # Python values: never decided by default
                    raise EngineError(f'eq of {type(a).__name__} and {type(b).__name__}')
                return False
            raise EngineError(f'eq of {a!r} and {b!r}')
        try:
            return bool(a == b)
        except Exception as e:  # native comparison raising
            raise PyRaise(type(e), e.args)

    def eq_bool(self, x, y):
        if x is y:
            return True
        if isinstance(x, bool) and isinstance(y, bool):
            return x == y
        return mk_bool(BT(x) == BT(y))

    def seq_eq(self, a, b):
        if isinstance(a, SSeq) and isinstance(b, SSeq):
            return b_and(mk_bool(T(a.n) == T(b.n)), mk_bool(a.arr == b.arr))
        if isinstance(b, SSeq):
            a, b = b, a
        if isinstance(b, SList):
            conj = [mk_bool(T(a.n) == len(b.items))]
            for i, x in enumerate(b.items):
                conj.append(mk_bool(z3.Select(a.arr, i) == a.elem.unwrap(x)))
            return b_and(*conj)
        return False

    def glist_eq(self, a, b):
        """Sufficient condition for two guarded lists to denote the same Python list: position by
        position the guards agree and present values are equal (both lists come from the same
        canonical enumeration order)."""
        if len(a.items) != len(b.items):
            raise EngineError('equality of guarded lists of different shape')
        out = []
        for (g1, v1), (g2, v2) in zip(a.items, b.items):
            out.append(self.eq_bool(g1, g2))
            out.append(b_implies(g1, self.eq(v1, v2)))
        return b_and(*out)

    def compare(self, op, a, b):
        if isinstance(op, ast.Eq):
            return self.eq(a, b)
        if isinstance(op, ast.NotEq):
            return b_not(self.eq(a, b))
        if isinstance(op, (ast.Is, ast.IsNot)):
            r = self.identical(a, b)
            return r if isinstance(op, ast.Is) else b_not(r)
        if isinstance(op, (ast.In, ast.NotIn)):
            r = self.contains(b, a)
            return r if isinstance(op, ast.In) else b_not(r)
        # ordering
        if isinstance(a, SOpt):
            a = self.unopt(a)
        if isinstance(b, SOpt):
            b = self.unopt(b)
        if a is None or b is None:
            raise PyRaise(TypeError, ('ordering with NoneType',))
        if (is_int_like(a) or isinstance(a, float)) and (is_int_like(b) or isinstance(b, float)):
            if not isinstance(a, Sym) and not isinstance(b, Sym):
                return {ast.Lt: operator.lt, ast.LtE: operator.le, ast.Gt: operator.gt,
                        ast.GtE: operator.ge}[type(op)](a, b)
            ta, tb = T(a), T(b)
            if isinstance(op, ast.Lt):
                return mk_bool(ta < tb)
            if isinstance(op, ast.LtE):
                return mk_bool(ta <= tb)
            if isinstance(op, ast.Gt):
                return mk_bool(ta > tb)
            return mk_bool(ta >= tb)
        name = {ast.Lt: '__lt__', ast.LtE: '__le__', ast.Gt: '__gt__', ast.GtE: '__ge__'}[type(op)]
        cls = a.cls if isinstance(a, SObj) else type(a)
        f = self.lookup_class_attr(cls, name)
        if f is not None and inspect.isfunction(f) and is_repo_fn(f):
            return self.call_function(f, [a, b], {})
        if is_native(a) and is_native(b):
            try:
                return {ast.Lt: operator.lt, ast.LtE: operator.le, ast.Gt: operator.gt,
                        ast.GtE: operator.ge}[type(op)](a, b)
            except Exception as e:
                raise PyRaise(type(e), e.args)
        raise EngineError(f'ordering of {a!r} {b!r}')

    def identical(self, a, b):
        if a is None or b is None or isinstance(a, SOpt) or isinstance(b, SOpt):
            ia, va = V._split_opt(a)
            ib, vb = V._split_opt(b)
            both_none = b_and(ia, ib)
            if va is None or vb is None:
                return both_none
            return b_or(both_none, b_and(b_not(ia), b_not(ib), self.identical(va, vb)))
        if is_bool_like(a) and is_bool_like(b):
            return self.eq(a, b)
        if is_enum_like(a) or is_enum_like(b):
            return self.eq(a, b)
        if isinstance(a, Mut) or isinstance(b, Mut):
            return a is b
        from .strings import XStr as _XI
        if isinstance(a, (str, _XI)) and isinstance(b, (str, _XI)):
            # identity of str objects: modelled as equality (the protocol constants compared with
            # `is` travel through in-process queues, i.e. they are the same objects)
            return self.eq(a, b)
        if isinstance(a, Sym) or isinstance(b, Sym):
            raise EngineError(f"'is' on {a!r}, {b!r}")
        if is_int_like(a) and is_int_like(b):
            return a == b
        return a is b

    def contains(self, cont, x):
        from .strings import XStr, str_contains
        if isinstance(cont, SOpt):
            cont = self.unopt(cont)
            if cont is None:
                raise PyRaise(TypeError, ("argument of type 'NoneType' is not iterable",))
        if isinstance(cont, (str, XStr)) and isinstance(x, (str, XStr)):
            if isinstance(cont, str) and isinstance(x, str):
                return x in cont
            return str_contains(self, cont, x)
        if isinstance(cont, (tuple, list, set, frozenset)):
            if is_native(x) and is_native(tuple(cont)) and not any(
                    isinstance(y, SObj) for y in cont):
                try:
                    return x in cont
                except Exception as e:
                    raise PyRaise(type(e), e.args)
            return b_or(*[self.eq(x, y) for y in cont])
        if isinstance(cont, SList):
            return b_or(*[self.eq(x, y) for y in cont.items])
        if isinstance(cont, SSet):
            if is_native(x):
                try:
                    return x in cont.items
                except TypeError as e:
                    raise PyRaise(TypeError, e.args)
            return b_or(*[self.eq(x, y) for y in cont.items])
        if isinstance(cont, dict) and isinstance(x, SEnum):
            # a constant table keyed by Enum members, asked about a symbolic member
            return b_or(*[self.eq(x, k) for k in cont])
        if isinstance(cont, (SDict, dict)) and isinstance(x, XStr):
            if x.alts is None:
                raise EngineError(f'contains {cont!r} {x!r}')
            keys = cont.d if isinstance(cont, SDict) else cont
            return b_or(*[g for g, t in x.alts if t in keys])
        if isinstance(cont, SDict):
            if is_native(x):
                return x in cont.d
            return b_or(*[self.eq(x, k) for k in cont.d])
        if isinstance(cont, SCardSet):
            return self.cardset_contains(cont, x)
        if isinstance(cont, GList):
            return b_or(*[b_and(g, self.eq(x, y)) for g, y in cont.items])
        if isinstance(cont, SVec):
            return b_or(*[self.eq(x, y) for y in cont.slots])
        if is_native(cont) and is_native(x):
            try:
                return x in cont
            except Exception as e:
                raise PyRaise(type(e), e.args)
        raise EngineError(f'contains {cont!r} {x!r}')

    def cardset_contains(self, s, card):
        if isinstance(card, SOpt):
            raise EngineError('optional card in set')
        if not is_card(card):
            return False
        idx = V.card_index(card)
        if isinstance(idx, int):
            return s.guards[idx] if 0 <= idx < 52 else False
        return b_or(*[b_and(mk_bool(idx == i), g) for i, g in enumerate(s.guards)])

    # ============================================================================================
    # arithmetic

    def binop(self, op, a, b):
        from .strings import XStr, str_concat
        if isinstance(a, SOpt):
            a = self.unopt(a)
        if isinstance(b, SOpt):
            b = self.unopt(b)
        if a is None or b is None:
            raise PyRaise(TypeError, ('unsupported operand type(s): NoneType',))
        if isinstance(op, ast.Add):
            from . import ext as _ext
            if isinstance(b, _ext.SByte1):
                return _ext.bytes_add(self, a, b)
            if isinstance(a, _ext.SCharSeq) and isinstance(b, str):
                return a.concat(b)
            if isinstance(a, (str, XStr)) and isinstance(b, (str, XStr)):
                if isinstance(a, str) and isinstance(b, str):
                    return a + b
                return str_concat(a, b)
            if isinstance(a, SList) and isinstance(b, SList):
                return SList(a.items + b.items)
            if isinstance(a, tuple) and isinstance(b, tuple):
                return a + b
            if isinstance(a, SSeq) and isinstance(b, SList):
                n, arr = a.n, a.arr
                for x in b.items:
                    arr = z3.Store(arr, T(n), a.elem.unwrap(x))
                    n = z3.simplify(T(n) + 1)
                return SSeq(n, arr, a.elem)
        if isinstance(op, ast.Mult):
            if isinstance(a, SList) and isinstance(b, int):
                return SList(a.items * b)
            if isinstance(a, int) and isinstance(b, SList):
                return SList(b.items * a)
        if is_bool_like(a) and (is_int_like(b) or is_bool_like(b)):
            a = a if isinstance(a, bool) else mk_int(z3.If(BT(a), 1, 0))
        if is_bool_like(b) and is_int_like(a):
            b = b if isinstance(b, bool) else mk_int(z3.If(BT(b), 1, 0))
        if (is_int_like(a) or isinstance(a, (bool, float))) and \
                (is_int_like(b) or isinstance(b, (bool, float))):
            if not isinstance(a, Sym) and not isinstance(b, Sym):
                return self.native_binop(op, a, b)
            ta, tb = T(a), T(b)
            if isinstance(op, ast.Add):
                return mk_int(ta + tb)
            if isinstance(op, ast.Sub):
                return mk_int(ta - tb)
            if isinstance(op, ast.Mult):
                return mk_int(ta * tb)
            if isinstance(op, (ast.FloorDiv, ast.Mod)):
                if not (isinstance(b, int) and b > 0):
                    raise EngineError('// and % only with positive constant divisors')
                return mk_int(ta / tb) if isinstance(op, ast.FloorDiv) else mk_int(ta % tb)
            raise EngineError(f'binop {type(op).__name__} on symbolic ints')
        if is_native(a) and is_native(b):
            return self.native_binop(op, a, b)
        raise EngineError(f'binop {type(op).__name__} on {a!r}, {b!r}')

    _OPS = {ast.Add: operator.add, ast.Sub: operator.sub, ast.Mult: operator.mul,
            ast.FloorDiv: operator.floordiv, ast.Mod: operator.mod, ast.Div: operator.truediv,
            ast.Pow: operator.pow, ast.BitAnd: operator.and_, ast.BitOr: operator.or_,
            ast.BitXor: operator.xor, ast.LShift: operator.lshift, ast.RShift: operator.rshift}

    def native_binop(self, op, a, b):
        try:
            return self._OPS[type(op)](a, b)
        except Exception as e:
            raise PyRaise(type(e), e.args)

    # ============================================================================================
    # expressions

    def ev(self, node, fr):
        self.steps += 1
        if self.steps > self.MAX_STEPS:
            raise EngineError('step limit')
        m = getattr(self, 'ev_' + type(node).__name__, None)
        if m is None:
            raise EngineError(f'unsupported expression {type(node).__name__} '
                              f'at line {getattr(node, "lineno", "?")}')
        return m(node, fr)

    def ev_Constant(self, node, fr):
        return node.value

    def lookup_name(self, name, fr):
        f = fr
        while f is not None:
            if name in f.locals:
                v = f.locals[name]
                if v is UNBOUND:
                    raise PyRaise(UnboundLocalError, (name,))
                if v is V.LOOP_UNKNOWN:
                    raise EngineError(f'local {name!r} is carried over from a previous loop '
                                      f'iteration but the loop contract gives no shape for it')
                if name in f.maybe_unbound:
                    raise EngineError(f'local {name!r} may be unbound here (bound on one branch only)')
                return v
            f = f.parent
        g = fr.globals
        if name in g:
            return g[name]
        if hasattr(builtins, name):
            return getattr(builtins, name)
        raise PyRaise(NameError, (name,))

    def ev_Name(self, node, fr):
        return self.lookup_name(node.id, fr)

    def mangle(self, attr, fr):
        if attr.startswith('__') and not attr.endswith('__') and fr.cls is not None:
            return '_' + fr.cls.__name__.lstrip('_') + attr
        return attr

    def ev_Attribute(self, node, fr):
        obj = self.ev(node.value, fr)
        return self.getattr(obj, self.mangle(node.attr, fr))

    def ev_Tuple(self, node, fr):
        return tuple(self.ev_seq_items(node.elts, fr))

    def ev_seq_items(self, elts, fr):
        out = []
        for e in elts:
            if isinstance(e, ast.Starred):
                out.extend(self.iterate(self.ev(e.value, fr)))
            else:
                out.append(self.ev(e, fr))
        return out

    def ev_List(self, node, fr):
        return SList(self.ev_seq_items(node.elts, fr))

    def ev_Set(self, node, fr):
        items = self.ev_seq_items(node.elts, fr)
        return self.make_set(items)

    def make_set(self, items):
        if items and all(is_card(x) for x in items):
            s = SCardSet()
            for x in items:
                self.cardset_add(s, x)
            idxs = [V.card_index(x) for x in items]
            if len(items) > 1 and not any(isinstance(i, int) for i in idxs):
                # counting lemma (trusted, listed in evidence): a set built from k pairwise
                # distinct elements has k elements.  Distinctness must be entailed by the path
                # condition; the known size is dropped as soon as the set is modified.
                r, _ = self.ctx._check(z3.Not(z3.Distinct(idxs)), self.ctx.FEAS_TIMEOUT_MS)
                if r == z3.unsat:
                    s.known_len = (len(items), list(s.guards))
                    self.used.add('<lemma> |{x1..xk}| = k for pairwise distinct x1..xk')
            return s
        if all(is_native(x) for x in items):
            try:
                return SSet(items)
            except TypeError as e:
                raise PyRaise(TypeError, e.args)
        raise EngineError('set of symbolic non-card values')

    def ev_Dict(self, node, fr):
        d = SDict()
        for k, v in zip(node.keys, node.values):
            if k is None:
                raise EngineError('dict unpacking')
            kk = self.ev(k, fr)
            vv = self.ev(v, fr)
            self.setitem(d, kk, vv)
        return d

    def ev_UnaryOp(self, node, fr):
        v = self.ev(node.operand, fr)
        if isinstance(node.op, ast.Not):
            return b_not(self.truth(v))
        if isinstance(node.op, ast.USub):
            if isinstance(v, SInt):
                return mk_int(-v.t)
            return -v
        if isinstance(node.op, ast.UAdd):
            return v
        raise EngineError('unary op')

    def ev_BinOp(self, node, fr):
        a = self.ev(node.left, fr)
        b = self.ev(node.right, fr)
        return self.binop(node.op, a, b)

    def ev_BoolOp(self, node, fr):
        is_and = isinstance(node.op, ast.And)
        return self._boolop(node.values, 0, is_and, fr)

    def _boolop(self, vals, i, is_and, fr):
        v = self.ev(vals[i], fr)
        if i == len(vals) - 1:
            return v
        tv = self.truth(v)
        if isinstance(tv, bool):
            if tv == is_and:
                return self._boolop(vals, i + 1, is_and, fr)
            return v
        # symbolic: try to evaluate the rest without forking and combine
        cond = tv if is_and else b_not(tv)  # condition under which the rest is evaluated

        def rest():
            r = self._boolop(vals, i + 1, is_and, fr)
            tr = self.truth(r)
            if not is_bool_like(r):
                # value semantics of and/or with non-bool operands: only usable as a truth value
                return tr
            return tr

        ok, val = self.merged_branches(cond, rest, lambda: (not is_and), True) \
            if is_bool_like(v) else (False, None)
        if ok:
            return val
        if self.ctx.decide(tv) == is_and:
            return self._boolop(vals, i + 1, is_and, fr)
        return v

    def ev_Compare(self, node, fr):
        left = self.ev(node.left, fr)
        if len(node.ops) == 1:
            return self.compare(node.ops[0], left, self.ev(node.comparators[0], fr))
        result = True
        for op, cn in zip(node.ops, node.comparators):
            right = self.ev(cn, fr)  # chained comparisons here have pure operands
            result = b_and(result, self.compare(op, left, right))
            if result is False:
                return False
            left = right
        return result

    def ev_IfExp(self, node, fr):
        c = self.truth(self.ev(node.test, fr))
        if isinstance(c, bool):
            return self.ev(node.body if c else node.orelse, fr)
        ok, val = self.merged_branches(c, lambda: self.ev(node.body, fr),
                                       lambda: self.ev(node.orelse, fr), True)
        if ok:
            return val
        if self.ctx.decide(c):
            return self.ev(node.body, fr)
        return self.ev(node.orelse, fr)

    def ev_Yield(self, node, fr):
        """A generator is run to completion; what it yields is collected, in order, in the ghost
        list __yielded__ of its frame (the function's result)."""
        v = self.ev(node.value, fr) if node.value is not None else None
        f = fr
        while f is not None and '__yielded__' not in f.locals:
            f = f.parent
        if f is None:
            raise EngineError('yield outside a generator frame')
        f.locals['__yielded__'].items.append(v)
        return None

    def ev_Lambda(self, node, fr):
        return Closure(node, fr)

    def ev_JoinedStr(self, node, fr):
        from .strings import str_concat
        out = ''
        for part in node.values:
            if isinstance(part, ast.Constant):
                s = part.value
            else:
                v = self.ev(part.value, fr)
                if part.format_spec is not None:
                    raise EngineError('format spec')
                if part.conversion == 114:
                    s = self.to_repr(v)
                else:
                    s = self.to_str(v)
            out = out + s if isinstance(out, str) and isinstance(s, str) else str_concat(out, s)
        return out

    def ev_Subscript(self, node, fr):
        obj = self.ev(node.value, fr)
        if isinstance(node.slice, ast.Slice):
            lo = self.ev(node.slice.lower, fr) if node.slice.lower else None
            hi = self.ev(node.slice.upper, fr) if node.slice.upper else None
            st = self.ev(node.slice.step, fr) if node.slice.step else None
            return self.getslice(obj, lo, hi, st)
        idx = self.ev(node.slice, fr)
        return self.getitem(obj, idx)

    def ev_Call(self, node, fr):
        # super() without arguments
        if isinstance(node.func, ast.Name) and node.func.id == 'super' and not node.args:
            if fr.cls is None:
                raise EngineError('super() outside a class')
            fdef = fr.fdef
            self_name = fdef.args.args[0].arg
            return SuperProxy(fr.cls, fr.locals[self_name])
        f = self.ev(node.func, fr)
        args = self.ev_seq_items(node.args, fr)
        kwargs = {}
        for kw in node.keywords:
            if kw.arg is None:
                raise EngineError('**kwargs')
            kwargs[kw.arg] = self.ev(kw.value, fr)
        self.ctx.where = f'{fr.name}:{getattr(node, "lineno", 0)}'
        return self.call(f, args, kwargs, node=node, fr=fr)

    # -- comprehensions --------------------------------------------------------------------------
    def _comp(self, node, fr, emit, first_iter=None):
        """Generic comprehension driver: emit(guard, frame) for each produced element."""
        cfr = Frame(fr.globals, fr.cls, fr, fr.name + '.<comp>')
        cfr.fdef = getattr(fr, 'fdef', None)

        def rec(gi, guard):
            if gi == len(node.generators):
                emit(guard, cfr)
                return
            g = node.generators[gi]
            it = first_iter if (gi == 0 and first_iter is not None) else \
                self.ev(g.iter, cfr if gi else fr)
            for eg, item in self.iterate_guarded(it):
                self.assign(g.target, item, cfr)
                gd = b_and(guard, eg)
                ok = True
                for cnd in g.ifs:
                    c = self.truth(self.ev(cnd, cfr))
                    gd = b_and(gd, c)
                    if gd is False:
                        ok = False
                        break
                if ok:
                    rec(gi + 1, gd)
        rec(0, True)

    def ev_ListComp(self, node, fr):
        if len(node.generators) == 1 and not node.generators[0].ifs:
            src = self.ev(node.generators[0].iter, fr)
            if isinstance(src, SOpt):
                src = self.unopt(src)
                if src is None:
                    raise PyRaise(TypeError, ("'NoneType' object is not iterable",))
            if isinstance(src, (SSeq, V.SMap)):
                # comprehension over a list of symbolic length: a lazy map (element i is the
                # element expression evaluated at src[i]); compared at an arbitrary element
                return V.SMap(src, node, fr, self)
            return self._listcomp_from(node, fr, src)
        return self._listcomp_from(node, fr, None)

    def _listcomp_from(self, node, fr, first_iter):
        items = []
        self._comp(node, fr, lambda g, cfr: items.append((g, self.ev(node.elt, cfr))),
                   first_iter=first_iter)
        if all(g is True for g, _ in items):
            return SList([v for _, v in items])
        return GList(items)

    def ev_GeneratorExp(self, node, fr):
        return self._listcomp_from(node, fr, None)

    def ev_SetComp(self, node, fr):
        items = []
        self._comp(node, fr, lambda g, cfr: items.append((g, self.ev(node.elt, cfr))))
        if all(g is True for g, _ in items):
            return self.make_set([v for _, v in items])
        s = SCardSet()
        for g, v in items:
            if not is_card(v):
                raise EngineError('guarded set of non-cards')
            self.cardset_add(s, v, guard=g)
        return s

    def ev_DictComp(self, node, fr):
        d = SDict()

        def emit(g, cfr):
            if g is not True:
                raise EngineError('guarded dict comprehension')
            k = self.ev(node.key, cfr)
            v = self.ev(node.value, cfr)
            self.setitem(d, k, v)
        self._comp(node, fr, emit)
        return d

    # ============================================================================================
    # iteration

    def iterate(self, it):
        """Concrete-length iteration: list of values."""
        out = []
        for g, v in self.iterate_guarded(it):
            if g is not True:
                raise EngineError('guarded iteration where a plain one is required')
            out.append(v)
        return out

    def iterate_guarded(self, it):
        from .strings import XStr
        if isinstance(it, SList):
            return [(True, x) for x in list(it.items)]
        if isinstance(it, (tuple, list, range, str)):
            return [(True, x) for x in it]
        if isinstance(it, GList):
            return list(it.items)
        if isinstance(it, SCardSet):
            return [(g, V.concrete_card(i)) for i, g in enumerate(it.guards) if g is not False]
        if isinstance(it, SSet):
            try:
                return [(True, x) for x in sorted(it.items, key=repr)]
            except Exception:
                return [(True, x) for x in it.items]
        if isinstance(it, SDict):
            return [(True, k) for k in it.d.keys()]
        if isinstance(it, type) and issubclass(it, enum.Enum):
            return [(True, m) for m in it]
        if isinstance(it, SVec):
            return [(True, x) for x in it.slots]
        if isinstance(it, XStr):
            return it.iter_chars()
        if isinstance(it, (set, frozenset, dict)):
            return [(True, x) for x in it]
        if isinstance(it, SSeq):
            raise EngineError('iteration over a list of symbolic length needs a loop contract')
        if is_native(it) and hasattr(it, '__iter__'):
            return [(True, x) for x in it]
        raise EngineError(f'cannot iterate {it!r}')

    # ============================================================================================
    # attribute access

    def lookup_class_attr(self, cls, name):
        for k in cls.__mro__:
            if name in k.__dict__:
                return k.__dict__[name]
        return None

    def getattr(self, obj, name):
        from .strings import XStr
        if isinstance(obj, SOpt):
            inner = self.unopt(obj)
            if inner is None:
                raise PyRaise(AttributeError, (f"'NoneType' object has no attribute '{name}'",))
            obj = inner
        if obj is None:
            raise PyRaise(AttributeError, (f"'NoneType' object has no attribute '{name}'",))
        if isinstance(obj, SObj):
            if name in obj.fields:
                v = obj.fields[name]
                if v is UNBOUND:
                    raise PyRaise(AttributeError, (name,))
                return v
            if name == '__class__':
                return obj.cls
            if name == '__dict__':
                return SDict(obj.fields)
            return self.class_attr(obj.cls, obj, name)
        if isinstance(obj, SEnum):
            if name == 'value':
                info = EnumInfo.of(obj.cls)
                if info.by_value:
                    return SInt(obj.t)
                return self.concretize_enum(obj).value
            if name == 'name':
                return self.concretize_enum(obj).name
            return self.class_attr(obj.cls, obj, name)
        if isinstance(obj, enum.Enum):
            if name in ('value', 'name'):
                return getattr(obj, name)
            return self.class_attr(type(obj), obj, name)
        if isinstance(obj, SuperProxy):
            mro = (obj.self_val.cls if isinstance(obj.self_val, SObj)
                   else type(obj.self_val)).__mro__
            i = mro.index(obj.cls)
            for k in mro[i + 1:]:
                if name in k.__dict__:
                    return self.bind(k.__dict__[name], obj.self_val, k)
            raise PyRaise(AttributeError, (name,))
        from .ext import SExt, SBytes
        if isinstance(obj, SExt) and name in obj.fields:
            return obj.fields[name]
        if isinstance(obj, (SList, SDict, SCardSet, SSeq, SSet, SVec, GList, XStr, SExt, SBytes)):
            return BuiltinMethod(obj, name)
        from .ext import SDecoded
        if isinstance(obj, SDecoded) and name == 'lower':
            return BuiltinMethod(obj, name)
        if isinstance(obj, ExcValue):
            if name == 'args':
                return tuple(obj.args)
            raise EngineError('exception attribute')
        if isinstance(obj, type):
            # class attribute: distinguish class/static methods of repo classes
            raw = None
            for k in obj.__mro__:
                if name in k.__dict__:
                    raw = k.__dict__[name]
                    break
            if raw is None or (obj.__module__ or '').split('.')[0] not in ('bridge_env', 'spec',
                                                                           'contracts'):
                try:
                    return getattr(obj, name)
                except AttributeError as e:
                    raise PyRaise(AttributeError, e.args)
            if isinstance(raw, classmethod):
                return BoundMethod(raw.__func__, obj, obj)
            if isinstance(raw, staticmethod):
                return raw.__func__
            if issubclass(obj, enum.Enum) and isinstance(getattr(obj, name, None), obj):
                return getattr(obj, name)
            return raw if not isinstance(raw, property) else raw
        if V.is_card(obj) and not isinstance(obj, SObj):
            if name in ('rank', 'suit'):
                return getattr(obj, name)
            return self.class_attr(type(obj), obj, name)
        if isinstance(obj, Sym):
            raise EngineError(f'attribute {name} of {obj!r}')
        # native object (module, str, re.Match ...)
        m = self.models_mod.native_getattr(self, obj, name)
        return m

    def class_attr(self, cls, obj, name):
        raw = self.lookup_class_attr(cls, name)
        if raw is None:
            raise PyRaise(AttributeError, (f'{cls.__name__}.{name}',))
        return self.bind(raw, obj, cls)

    def bind(self, raw, obj, cls):
        if isinstance(raw, property):
            return self.call_function(raw.fget, [obj], {})
        if isinstance(raw, staticmethod):
            return raw.__func__
        if isinstance(raw, classmethod):
            c = obj.cls if isinstance(obj, (SObj, SEnum)) else type(obj)
            return BoundMethod(raw.__func__, c, c)
        if inspect.isfunction(raw):
            return BoundMethod(raw, obj, cls)
        if isinstance(raw, (types.MethodDescriptorType, types.WrapperDescriptorType)):
            return BoundMethod(raw, obj, cls)
        return raw

    def setattr(self, obj, name, val):
        if isinstance(obj, SOpt):
            obj = self.unopt(obj)
        if isinstance(obj, SObj):
            if obj.frozen:
                raise PyRaise(dataclasses.FrozenInstanceError, (name,))
            obj.fields[name] = val
            return
        raise EngineError(f'setattr on {obj!r}')

    # ============================================================================================
    # subscripts

    def norm_index(self, idx, n, exc=IndexError):
        """Python index normalisation for sequences of length n (int or term).  Returns the
        non-negative index (int or term); forks/raises IndexError when out of range."""
        if isinstance(idx, bool):
            idx = int(idx)
        if isinstance(idx, int) and isinstance(n, int):
            if idx < -n or idx >= n:
                raise PyRaise(exc, ('index out of range',))
            return idx + n if idx < 0 else idx
        ti, tn = T(idx), T(n)
        if self.ctx.decide(mk_bool(z3.Or(ti < -tn, ti >= tn))):
            raise PyRaise(exc, ('index out of range',))
        if isinstance(idx, int):
            return mk_int(ti + tn) if idx < 0 else idx
        return mk_int(z3.If(ti < 0, ti + tn, ti))

    def select_chain(self, idx, items):
        """items[idx] for a symbolic non-negative in-range index."""
        if isinstance(idx, int):
            return items[idx]
        ti = T(idx)
        # restrict to feasible positions lazily: plain ite chain
        try:
            acc = items[-1]
            for i in range(len(items) - 2, -1, -1):
                acc = V.merge(z3.simplify(ti == i), items[i], acc)
            return acc
        except CannotMerge:
            k = self.ctx.decide_among(ti, list(range(len(items))))
            return items[k]

    def getitem(self, obj, idx):
        from .strings import XStr
        if isinstance(obj, SOpt):
            obj = self.unopt(obj)
            if obj is None:
                raise PyRaise(TypeError, ("'NoneType' object is not subscriptable",))
        if isinstance(idx, SOpt):
            idx = self.unopt(idx)
        from .strings import XStr as _XS
        if isinstance(obj, dict) and isinstance(idx, _XS):
            obj = SDict(obj)
        if isinstance(obj, dict) and isinstance(idx, SEnum):
            # constant table (module-level dict of the spec / repo) looked up with a symbolic Enum
            # key: the ite-chain is built once per (table, key term) and memoised
            ck = (id(obj), idx.t.get_id())
            hit = _TABLE_CACHE.get(ck)
            if hit is not None and hit[0] is obj and hit[1].eq(idx.t):
                if hit[3] is not None:
                    if self.ctx.decide(hit[3]):
                        raise PyRaise(KeyError, (idx,))
                return hit[2]
            if all(is_native(v) and not isinstance(v, (list, dict, set)) for v in obj.values()):
                cands = [k for k in obj if isinstance(k, idx.cls)]
                missing = [m for m in idx.cls if m not in obj]
                miss = None
                if missing:
                    miss = b_or(*[mk_bool(idx.t == T(m)) for m in missing])
                    if self.ctx.decide(miss):
                        raise PyRaise(KeyError, (idx,))
                if cands:
                    try:
                        acc = obj[cands[-1]]
                        for k in reversed(cands[:-1]):
                            acc = V.merge(z3.simplify(idx.t == T(k)), obj[k], acc)
                        _TABLE_CACHE[ck] = (obj, idx.t, acc, miss)
                        return acc
                    except CannotMerge:
                        pass
            obj = SDict(obj)
        elif isinstance(obj, dict) and isinstance(idx, Sym):
            obj = SDict(obj)
        if isinstance(obj, list) and isinstance(idx, Sym):
            obj = SList(obj)
        if isinstance(obj, SList):
            if obj.items and obj.items[0] is V.PENDING:
                raise V.PendingRead('a trace is read before a postcondition has defined it')
            i = self.norm_index(idx, len(obj.items))
            return self.select_chain(i, obj.items)
        if isinstance(obj, tuple):
            if isinstance(idx, (int, SInt)):
                i = self.norm_index(idx, len(obj))
                return self.select_chain(i, list(obj))
        if isinstance(obj, SDict):
            return self.dict_get(obj, idx)
        if isinstance(obj, SSeq):
            i = self.norm_index(idx, obj.n)
            t = z3.Select(obj.arr, T(i))
            tc = obj.elem.typ(t)
            if tc is not None:
                self.ctx.assume_type(tc)
            return obj.elem.wrap(t)
        if isinstance(obj, SVec):
            i = self.norm_index(idx, len(obj.slots))
            return self.select_chain(i, obj.slots)
        from . import ext as _ext
        if isinstance(obj, _ext.SCharSeq):
            return obj.getitem(self, idx)
        if isinstance(obj, _ext.AbsLine):
            if idx == 0:
                # first character: '%' exactly for PERCENT lines (an opaque non-'%' char otherwise)
                return _ext.AbsFirstChar(obj)
            raise EngineError('indexing an abstract line')
        if isinstance(obj, _ext.SExt):
            f = _ext.GETITEM.get(obj.kind)
            if f is None:
                raise PyRaise(TypeError, ('not subscriptable',))
            return f(self, obj, idx)
        if isinstance(obj, GList):
            raise EngineError('indexing a guarded list')
        if isinstance(obj, SObj):
            f = self.lookup_class_attr(obj.cls, '__getitem__')
            if f is not None and inspect.isfunction(f):
                return self.call_function(f, [obj, idx], {})
            if issubclass(obj.cls, tuple):  # NamedTuple
                names = list(obj.fields)
                return obj.fields[names[self.norm_index(idx, len(names))]]
            raise PyRaise(TypeError, ('not subscriptable',))
        if isinstance(obj, type) and issubclass(obj, enum.Enum):
            return self.enum_by_name(obj, idx)
        if isinstance(obj, XStr):
            return obj.getitem(self, idx)
        if isinstance(obj, str) and isinstance(idx, SInt):
            i = self.norm_index(idx, len(obj))
            k = self.ctx.decide_among(T(i), list(range(len(obj))))
            return obj[k]
        if is_native(obj) and is_native(idx):
            try:
                return obj[idx]
            except Exception as e:
                raise PyRaise(type(e), e.args)
        raise EngineError(f'getitem {obj!r}[{idx!r}]')

    def enum_by_name(self, cls, name):
        from .strings import XStr
        if isinstance(name, str):
            try:
                return cls[name]
            except KeyError as e:
                raise PyRaise(KeyError, e.args)
        if isinstance(name, XStr):
            return name.enum_lookup(self, cls)
        raise PyRaise(KeyError, (name,))

    def dict_get(self, d, key):
        if isinstance(key, SOpt):
            key = self.unopt(key)
        from .strings import XStr as _X
        if isinstance(key, _X):
            if key.alts is None:
                # opaque text: compare with every key
                conds = [(self.eq(key, k), k) for k in d.d if isinstance(k, str)]
                none = b_not(b_or(*[c_ for c_, _ in conds]))
                if self.ctx.decide(none):
                    raise PyRaise(KeyError, ('<key>',))
                acc = d.d[conds[-1][1]]
                for c_, k in reversed(conds[:-1]):
                    acc = V.merge(BT(c_), d.d[k], acc) if not isinstance(c_, bool) else \
                        (d.d[k] if c_ else acc)
                return acc
            missing = b_or(*[g for g, t in key.alts if t not in d.d])
            if self.ctx.decide(missing):
                raise PyRaise(KeyError, ('<key>',))
            good = [(g, d.d[t]) for g, t in key.alts if t in d.d]
            try:
                acc = good[-1][1]
                for g, v in reversed(good[:-1]):
                    acc = V.merge(BT(g), v, acc)
                return acc
            except CannotMerge:
                for g, v in good[:-1]:
                    if self.ctx.decide(g):
                        return v
                return good[-1][1]
        if isinstance(key, SEnum):
            cands = [k for k in d.d if isinstance(k, key.cls)]
            missing = [m for m in key.cls if m not in d.d]
            if missing:
                miss = b_or(*[mk_bool(key.t == T(m)) for m in missing])
                if self.ctx.decide(miss):
                    raise PyRaise(KeyError, (key,))
            if not cands:
                raise PyRaise(KeyError, (key,))
            try:
                acc = d.d[cands[-1]]
                for k in reversed(cands[:-1]):
                    acc = V.merge(z3.simplify(key.t == T(k)), d.d[k], acc)
                return acc
            except CannotMerge:
                k = self.concretize_enum(key)
                return d.d[k]
        if isinstance(key, SInt):
            cands = [k for k in d.d if isinstance(k, int) and not isinstance(k, bool)]
            present = b_or(*[mk_bool(key.t == k) for k in cands])
            if not self.ctx.decide(present):
                raise PyRaise(KeyError, (key,))
            try:
                acc = d.d[cands[-1]]
                for k in reversed(cands[:-1]):
                    acc = V.merge(z3.simplify(key.t == k), d.d[k], acc)
                return acc
            except CannotMerge:
                k = self.ctx.decide_among(key.t, cands)
                return d.d[k]
        if isinstance(key, Sym):
            raise EngineError(f'dict key {key!r}')
        try:
            if key in d.d:
                return d.d[key]
        except TypeError as e:
            raise PyRaise(TypeError, e.args)
        raise PyRaise(KeyError, (key,))

    def getslice(self, obj, lo, hi, st):
        from .strings import XStr
        if isinstance(obj, XStr):
            return obj.getslice(self, lo, hi, st)
        from . import ext as _ext2
        if isinstance(obj, _ext2.SCharSeq):
            return obj.getslice(self, lo, hi, st)
        if isinstance(obj, _ext2.AbsLine):
            from .strings import XStr as _XS
            return _XS.atom(self.ctx.fresh_name('line_part'))      # an opaque part of the line
        if any(isinstance(x, Sym) for x in (lo, hi, st)):
            if isinstance(obj, str):
                from .strings import XStr as X2
                return X2.lift(obj).getslice(self, lo, hi, st)
            raise EngineError('symbolic slice bounds')
        if isinstance(obj, SList):
            if obj.items and obj.items[0] is V.PENDING:
                raise V.PendingRead('a trace is read before a postcondition has defined it')
            return SList(obj.items[slice(lo, hi, st)])
        if isinstance(obj, GList):
            raise EngineError('slice of guarded list')
        if isinstance(obj, SVec):
            return SVec(obj.slots[slice(lo, hi, st)], obj.dtype)
        if is_native(obj) or isinstance(obj, tuple):
            try:
                return obj[slice(lo, hi, st)]
            except Exception as e:
                raise PyRaise(type(e), e.args)
        raise EngineError(f'slice of {obj!r}')

    def setitem(self, obj, idx, val):
        if isinstance(obj, SOpt):
            obj = self.unopt(obj)
        if isinstance(idx, SOpt):
            idx = self.unopt(idx)
        if isinstance(obj, SDict):
            if isinstance(idx, SEnum):
                members = list(idx.cls)
                if all(m in obj.d for m in members):
                    try:
                        new = {m: V.merge(z3.simplify(idx.t == T(m)), val, obj.d[m])
                               for m in members}
                        obj.d.update(new)
                        return
                    except CannotMerge:
                        pass
                idx = self.concretize_enum(idx)
            if isinstance(idx, Sym):
                raise EngineError(f'dict key {idx!r}')
            try:
                obj.d[idx] = val
            except TypeError as e:
                raise PyRaise(TypeError, e.args)
            return
        if isinstance(obj, SList):
            i = self.norm_index(idx, len(obj.items))
            if isinstance(i, int):
                obj.items[i] = val
            else:
                obj.items = [V.merge(z3.simplify(T(i) == k), val, old)
                             for k, old in enumerate(obj.items)]
            return
        if isinstance(obj, SVec):
            self.models_mod.vec_setitem(self, obj, idx, val)
            return
        if isinstance(obj, SSeq):
            i = self.norm_index(idx, obj.n)
            obj.arr = z3.Store(obj.arr, T(i), obj.elem.unwrap(val))
            return
        raise EngineError(f'setitem on {obj!r}')

    # ============================================================================================
    # card sets

    def cardset_add(self, s, card, guard=True):
        idx = V.card_index(card)
        if isinstance(idx, int):
            s.guards[idx] = b_or(s.guards[idx], guard)
        else:
            s.guards = [b_or(g, b_and(guard, mk_bool(idx == i))) for i, g in enumerate(s.guards)]

    def cardset_remove(self, s, card, must_exist=True):
        if must_exist:
            if not self.ctx.decide(self.cardset_contains(s, card)):
                raise PyRaise(KeyError, (card,))
        if not is_card(card):
            return
        idx = V.card_index(card)
        if isinstance(idx, int):
            s.guards[idx] = False
        else:
            s.guards = [b_and(g, mk_bool(idx != i)) for i, g in enumerate(s.guards)]

    # ============================================================================================
    # str / repr

    def to_str(self, v):
        from .strings import XStr, str_of_int
        if isinstance(v, SOpt):
            v = self.unopt(v)
        if isinstance(v, (str, XStr)):
            return v
        if isinstance(v, (SEnum, enum.Enum)):
            cls = V.enum_cls_of(v)
            f = self.lookup_class_attr(cls, '__str__')
            if f is not None and inspect.isfunction(f):
                return self.call_function(f, [v], {})
            return str(self.concretize_enum(v))
        if isinstance(v, SInt):
            return str_of_int(self, v)
        if isinstance(v, SBool):
            return 'True' if self.ctx.decide(v) else 'False'
        if isinstance(v, SObj) or (V.is_card(v)):
            cls = v.cls if isinstance(v, SObj) else type(v)
            f = self.lookup_class_attr(cls, '__str__')
            if f is not None and inspect.isfunction(f):
                return self.call_function(f, [v], {})
            raise EngineError(f'str of {cls.__name__} (default repr)')
        if isinstance(v, (SCardSet, SList, SDict, SSeq, GList)):
            raise EngineError('str of container')
        if isinstance(v, ExcValue):
            return str(v.args[0]) if len(v.args) == 1 else str(tuple(v.args))
        return str(v)

    def to_repr(self, v):
        if is_native(v) and not isinstance(v, enum.Enum):
            return repr(v)
        raise EngineError('repr of symbolic value')

    # ============================================================================================
    # statements

    def ex_block(self, stmts, fr):
        for s in stmts:
            self.ex(s, fr)

    def ex(self, node, fr):
        self.steps += 1
        if self.steps > self.MAX_STEPS:
            raise EngineError('step limit')
        m = getattr(self, 'ex_' + type(node).__name__, None)
        if m is None:
            raise EngineError(f'unsupported statement {type(node).__name__} '
                              f'at line {getattr(node, "lineno", "?")}')
        return m(node, fr)

    def ex_Expr(self, node, fr):
        if isinstance(node.value, ast.Constant):
            return  # docstring
        if self.is_dropped_call(node.value, fr):
            return
        self.ev(node.value, fr)

    def is_dropped_call(self, node, fr):
        """logger.*(...) and print(...) are dropped by the extraction (DESIGN 2.2)."""
        if isinstance(node, ast.Call):
            f = node.func
            if isinstance(f, ast.Attribute) and isinstance(f.value, ast.Name) and \
                    f.value.id == 'logger':
                return True
            if isinstance(f, ast.Name) and f.id == 'print' and 'print' not in fr.locals:
                return True
        return False

    def ex_Pass(self, node, fr):
        pass

    def ex_Assign(self, node, fr):
        v = self.ev(node.value, fr)
        for tgt in node.targets:
            self.assign(tgt, v, fr)

    def ex_AnnAssign(self, node, fr):
        if node.value is not None:
            self.assign(node.target, self.ev(node.value, fr), fr)

    def ex_AugAssign(self, node, fr):
        tgt = node.target
        if isinstance(tgt, ast.Name):
            cur = self.lookup_name(tgt.id, fr)
            self.assign(tgt, self.binop(node.op, cur, self.ev(node.value, fr)), fr)
        elif isinstance(tgt, ast.Attribute):
            obj = self.ev(tgt.value, fr)
            name = self.mangle(tgt.attr, fr)
            cur = self.getattr(obj, name)
            self.setattr(obj, name, self.binop(node.op, cur, self.ev(node.value, fr)))
        elif isinstance(tgt, ast.Subscript):
            obj = self.ev(tgt.value, fr)
            idx = self.ev(tgt.slice, fr)
            cur = self.getitem(obj, idx)
            self.setitem(obj, idx, self.binop(node.op, cur, self.ev(node.value, fr)))
        else:
            raise EngineError('augassign target')

    def assign(self, tgt, v, fr):
        if isinstance(tgt, ast.Name):
            fr.locals[tgt.id] = v
            fr.maybe_unbound.discard(tgt.id)
        elif isinstance(tgt, (ast.Tuple, ast.List)):
            items = self.iterate(v)
            if len(items) != len(tgt.elts):
                raise PyRaise(ValueError, ('unpack',))
            for t, x in zip(tgt.elts, items):
                self.assign(t, x, fr)
        elif isinstance(tgt, ast.Attribute):
            obj = self.ev(tgt.value, fr)
            self.setattr(obj, self.mangle(tgt.attr, fr), v)
        elif isinstance(tgt, ast.Subscript):
            obj = self.ev(tgt.value, fr)
            if isinstance(tgt.slice, ast.Slice):
                lo = self.ev(tgt.slice.lower, fr) if tgt.slice.lower else None
                hi = self.ev(tgt.slice.upper, fr) if tgt.slice.upper else None
                if tgt.slice.step is not None:
                    raise EngineError('slice step store')
                self.models_mod.setslice(self, obj, lo, hi, v)
            else:
                self.setitem(obj, self.ev(tgt.slice, fr), v)
        else:
            raise EngineError(f'assign target {type(tgt).__name__}')

    def ex_Return(self, node, fr):
        raise ReturnSig(self.ev(node.value, fr) if node.value is not None else None)

    def ex_Break(self, node, fr):
        raise BreakSig()

    def ex_Continue(self, node, fr):
        raise ContinueSig()

    def ex_Raise(self, node, fr):
        if node.exc is None:
            cur = getattr(fr, 'handling', None)
            if cur is None:
                raise EngineError('bare raise outside handler')
            raise cur
        exc = node.exc
        if isinstance(exc, ast.Call) and not exc.keywords and exc.args and all(
                isinstance(a, ast.JoinedStr) or
                (isinstance(a, ast.Constant) and isinstance(a.value, str)) or
                (isinstance(a, ast.BinOp) and isinstance(a.op, ast.Add) and
                 all(isinstance(x, (ast.JoinedStr, ast.Constant)) for x in (a.left, a.right))) or
                (isinstance(a, ast.Call) and isinstance(a.func, ast.Attribute) and
                 a.func.attr == 'format' and isinstance(a.func.value, ast.Constant))
                for a in exc.args):
            # the message text of `raise X(f'...')` is not evaluated (dropped by the extraction,
            # like logging arguments: assumed side-effect free and non-raising)
            cls = self.ev(exc.func, fr)
            if isinstance(cls, type) and issubclass(cls, BaseException):
                raise PyRaise(cls, ('<message>',))
        v = self.ev(node.exc, fr)
        if isinstance(v, type) and issubclass(v, BaseException):
            raise PyRaise(v, ())
        if isinstance(v, ExcValue):
            raise PyRaise(v.cls, tuple(v.args))
        if isinstance(v, BaseException):
            raise PyRaise(type(v), v.args)
        raise EngineError(f'raise of {v!r}')

    def ex_Assert(self, node, fr):
        c = self.truth(self.ev(node.test, fr))
        if not self.ctx.decide(c):
            raise PyRaise(AssertionError, ())

    def ex_If(self, node, fr):
        c = self.truth(self.ev(node.test, fr))
        if isinstance(c, bool):
            self.ex_block(node.body if c else node.orelse, fr)
            return
        ok, _ = self.merged_branches(c, lambda: self.ex_block(node.body, fr),
                                     lambda: self.ex_block(node.orelse, fr), False)
        if ok:
            return
        if self.ctx.decide(c):
            self.ex_block(node.body, fr)
        else:
            self.ex_block(node.orelse, fr)

    def ex_While(self, node, fr):
        from .loops import exec_while
        exec_while(self, node, fr)

    def ex_For(self, node, fr):
        from .loops import exec_for
        exec_for(self, node, fr)

    def ex_With(self, node, fr):
        from .loops import exec_with
        exec_with(self, node, fr)

    def ex_Try(self, node, fr):
        try:
            try:
                self.ex_block(node.body, fr)
            except PyRaise as e:
                for h in node.handlers:
                    if h.type is None:
                        match = True
                    else:
                        ht = self.ev(h.type, fr)
                        hts = ht if isinstance(ht, tuple) else (ht,)
                        match = any(issubclass(e.cls, x) for x in hts)
                    if match:
                        if h.name:
                            fr.locals[h.name] = ExcValue(e.cls, list(e.eargs))
                        saved = getattr(fr, 'handling', None)
                        fr.handling = e
                        try:
                            self.ex_block(h.body, fr)
                        finally:
                            fr.handling = saved
                        break
                else:
                    raise
            else:
                self.ex_block(node.orelse, fr)
        finally:
            # NB: runs for PyRaise/ReturnSig/...; engine errors and PathEnd pass through as well,
            # which is harmless (they abort the path).
            if node.finalbody:
                import sys
                et = sys.exc_info()[0]
                if et is None or issubclass(et, (PyRaise, ReturnSig, BreakSig, ContinueSig)):
                    self.ex_block(node.finalbody, fr)

    def ex_FunctionDef(self, node, fr):
        fr.locals[node.name] = Closure(node, fr, node.name)

    def ex_Import(self, node, fr):
        import importlib
        for a in node.names:
            if a.asname:
                fr.locals[a.asname] = importlib.import_module(a.name)
            else:
                fr.locals[a.name.split('.')[0]] = __import__(a.name)

    def ex_ImportFrom(self, node, fr):
        import importlib
        mod = importlib.import_module(node.module)
        for a in node.names:
            fr.locals[a.asname or a.name] = getattr(mod, a.name)

    def ex_Global(self, node, fr):
        raise EngineError('global statement')

    def ex_Delete(self, node, fr):
        raise EngineError('del statement')

    # ============================================================================================
    # calls

    def call(self, f, args, kwargs, node=None, fr=None):
        from . import calls
        return calls.call(self, f, args, kwargs, node, fr)

    def call_function(self, fn, args, kwargs):
        from . import calls
        return calls.call_function(self, fn, args, kwargs)

    def run_body(self, fn, bound, cls=None):
        """Interpret the body of a Python function with already-bound arguments."""
        from . import calls
        return calls.run_body(self, fn, bound, cls)

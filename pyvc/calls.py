"""Call dispatch: contracts, transparent inlining, classes, builtins, intrinsics."""
from __future__ import annotations

import ast
import builtins
import dataclasses
import enum
import inspect
import types

import z3

from . import speclib
from . import values as V
from .ctx import PathEnd
from .values import (BT, T, BoundMethod, CannotMerge, Closure, EngineError, EnumInfo, Frame,
                     GList, Mut, SBool, SCardSet, SDict, SEnum, SInt, SList, SObj, SOpt, SSeq,
                     SSet, SuperProxy, SVec, Sym, UNBOUND, b_and, b_implies, b_ite, b_not, b_or,
                     is_bool_like, is_card, is_enum_like, is_int_like, mk_bool, mk_card, mk_enum,
                     mk_int, mk_opt)


def _I():
    from . import interp
    return interp


# ------------------------------------------------------------------------------------------------
# argument binding


_sig_cache = {}
_gen_cache = {}


def signature(fn):
    r = _sig_cache.get(fn)
    if r is None:
        r = _sig_cache[fn] = inspect.signature(fn)
    return r


def bind_args(fn, args, kwargs):
    sig = signature(fn)
    try:
        ba = sig.bind(*args, **kwargs)
    except TypeError as e:
        raise _I().PyRaise(TypeError, e.args)
    ba.apply_defaults()
    return dict(ba.arguments)


def bind_closure(it, clo, args, kwargs):
    node = clo.node
    a = node.args
    names = [x.arg for x in a.args]
    fr = Frame(clo.frame.globals, clo.frame.cls, clo.frame, clo.name)
    fr.fdef = getattr(clo.frame, 'fdef', None)
    if len(args) > len(names):
        raise _I().PyRaise(TypeError, ('too many arguments',))
    for n, v in zip(names, args):
        fr.locals[n] = v
    for k, v in kwargs.items():
        fr.locals[k] = v
    ndef = len(a.defaults)
    for i, n in enumerate(names):
        if n not in fr.locals:
            j = i - (len(names) - ndef)
            if j < 0:
                raise _I().PyRaise(TypeError, (f'missing argument {n}',))
            fr.locals[n] = it.ev(a.defaults[j], clo.frame)
    return fr


# ------------------------------------------------------------------------------------------------


def run_body(it, fn, bound, cls=None):
    I = _I()
    node, _src = I.get_funcdef(fn)
    if cls is None:
        cls = I.defining_class(fn)
    fr = Frame(fn.__globals__, cls, None, fn.__qualname__)
    fr.fdef = node
    fr.fn = fn
    fr.locals.update(bound)
    tf = getattr(it, 'top_frames', None)
    if tf is not None and not tf and it.call_depth == 0:
        tf.append(fr)
    it.call_depth += 1
    if it.call_depth > 60:
        raise EngineError('call depth')
    it.current_fn.append(fn)
    try:
        isgen = _gen_cache.get(id(node))
        if isgen is None:
            isgen = _gen_cache[id(node)] = any(isinstance(x, (ast.Yield, ast.YieldFrom))
                                               for x in ast.walk(node))
        if isgen:
            fr.locals['__yielded__'] = SList()
            try:
                it.ex_block(node.body, fr)
            except I.ReturnSig:
                pass
            return fr.locals['__yielded__']
        try:
            it.ex_block(node.body, fr)
        except I.ReturnSig as r:
            return r.value
        return None
    finally:
        it.call_depth -= 1
        it.current_fn.pop()


def run_inv(it, cc, obj):
    pname = next(iter(signature(cc.inv).parameters))
    return run_body(it, cc.inv, {pname: obj})


def call_closure(it, clo, args, kwargs):
    I = _I()
    fr = bind_closure(it, clo, args, kwargs)
    if isinstance(clo.node, ast.Lambda):
        return it.ev(clo.node.body, fr)
    try:
        it.ex_block(clo.node.body, fr)
    except I.ReturnSig as r:
        return r.value
    return None


# ------------------------------------------------------------------------------------------------
# top-level dispatch


def call(it, f, args, kwargs, node=None, fr=None):
    I = _I()
    if isinstance(f, BoundMethod):
        if inspect.isfunction(f.fn):
            return call_function(it, f.fn, [f.self_val] + list(args), kwargs)
        # method descriptor of a builtin type (object.__init__, Enum stuff ...)
        return it.models_mod.call_descriptor(it, f, args, kwargs)
    if isinstance(f, Closure):
        return call_closure(it, f, args, kwargs)
    if isinstance(f, I.BuiltinMethod):
        return it.models_mod.call_builtin_method(it, f.obj, f.name, args, kwargs)
    if isinstance(f, type):
        return instantiate(it, f, args, kwargs)
    if inspect.isfunction(f):
        return call_function(it, f, args, kwargs)
    if f in speclib.INTRINSICS:
        return intrinsic(it, speclib.INTRINSICS[f], args, kwargs)
    return it.models_mod.call_native(it, f, args, kwargs)


def call_function(it, fn, args, kwargs):
    I = _I()
    if fn in speclib.INTRINSICS:
        return intrinsic(it, speclib.INTRINSICS[fn], args, kwargs)
    mod = (getattr(fn, '__module__', '') or '')
    top = mod.split('.')[0]
    if top == 'bridge_env':
        reg = it.registry
        c = reg.lookup(fn) if reg is not None else None
        bound = bind_args(fn, args, kwargs)
        if c is None and getattr(it, 'inline_all', 0):
            return run_body(it, fn, bound)
        if c is None:
            raise EngineError(f'call to {I.qualname_of(fn)}: no contract and not transparent')
        if c.mode == 'transparent' or it.concrete or c.inline_at_calls or \
                getattr(it, 'inline_all', 0):
            it.used.add(c.qualname)
            return run_body(it, fn, bound)
        if c.at_calls == 'abstract':
            if _all_structured(bound):
                it.used.add(c.qualname)
                return run_body(it, fn, bound)      # nothing opaque: the real body decides
            return _logged(it, c, bound, lambda: abstract_call(it, c, fn, bound))
        return _logged(it, c, bound, lambda: call_by_contract(it, c, fn, bound))
    if top in ('spec', 'contracts', 'pyvc'):
        bound = bind_args(fn, args, kwargs)
        return run_body(it, fn, bound)
    return it.models_mod.call_native(it, fn, args, kwargs)


def _logged(it, c, bound, thunk):
    """Ghost log of the calls made by contract (for clauses that say which calls an iteration
    makes and relate their arguments and results: calls_since / call_result / call_arg)."""
    log = it.__dict__.setdefault('call_log', [])
    memo = {}
    e = dict(q=c.qualname, args={k: V.clone_value(v, memo) for k, v in bound.items()},
             result=None, done=False, cond=bool(it.ctx.nofork))     # arguments as they are NOW
    log.append(e)
    r = thunk()
    e['result'] = r
    e['done'] = True
    if 'self' in bound and getattr(it, 'obl_suffix', None) is not None:
        # the receiver as the call left it (call_self_after): lets a clause of the caller say
        # what the caller itself did NOT change after the call returned
        try:
            e['self_after'] = V.clone_value(bound['self'], {})
        except Exception:
            e['self_after'] = None
    return r


def _log_entries(it, iter_, f):
    f = getattr(f, '__func__', f)
    c2 = it.registry.lookup(f)
    if c2 is None:
        raise EngineError('calls_since / call_result: the function has no contract')
    start = 0
    if iter_ is not None:
        start = iter_.fields.get('__calls__')
        if start is None:
            raise EngineError('calls_since: not an iteration snapshot')
    es = [e for e in getattr(it, 'call_log', [])[start:] if e['q'] == c2.qualname]
    if any(e['cond'] for e in es):
        raise EngineError(f'calls_since: a call of {c2.qualname} was made inside a merged branch')
    return es


def clause_args(it, cfn, ns):
    """Pick the arguments of a contract clause function by parameter name."""
    sig = signature(cfn)
    names = list(sig.parameters)
    if all(p in ns for p in names):
        return [ns[p] for p in names]
    # a spec function used directly as a clause: positional over the function's own parameters
    pos = [v for k, v in ns.items() if k not in ('old', 'result', 'exc')]
    if len(pos) == len(names) + 1 and next(iter(ns)) == 'cls':
        pos = pos[1:]
    if len(pos) != len(names):
        raise EngineError(f'clause {cfn.__qualname__}: cannot bind parameters {names}')
    return pos


def eval_clause(it, cfn, ns):
    bound = dict(zip(signature(cfn).parameters, clause_args(it, cfn, ns)))
    return run_body(it, cfn, bound)


def make_old(it, bound):
    """Deep snapshot of the arguments, as an object with one attribute per parameter."""
    memo = {}
    fields = {k: V.clone_value(v, memo) for k, v in bound.items()}
    return SObj(types.SimpleNamespace, fields, frozen=True)


_UF = {}


def _all_structured(bound):
    """Can the real body decide the call?  Not if an argument is a message about which nothing is
    known (a text that is one opaque atom, undecoded bytes, an abstract line, an opaque value);
    structured texts (case variants, blanks, guarded pieces) and containers of values are fine."""
    from .strings import XStr, Atom
    from .dsl import OpaqueVal
    seen = False
    for v in bound.values():
        if isinstance(v, str):
            seen = True
        elif isinstance(v, XStr):
            seen = True
            if v.segs and all(isinstance(p, Atom) and p.only is None for _, p in v.segs):
                return False
        elif isinstance(v, OpaqueVal.Val) or type(v).__name__ in ('SDecoded', 'AbsLine'):
            return False
        elif isinstance(v, (SDict, SList)):
            seen = True
            inner = list(v.d.values()) if isinstance(v, SDict) else list(v.items)
            if any(isinstance(x, OpaqueVal.Val) for x in inner):
                return False
    return seen


def abstract_call(it, c, fn, bound):
    """Call of a pure parser whose contract speaks about ghost parameters (the value a message
    encodes) on a message about which nothing is known: it may raise (unparseable message) or
    return a value of its result shape that is a *function of its arguments* (same arguments,
    same result) -- an uninterpreted function of the argument terms."""
    I = _I()
    from .strings import XStr
    ctx = it.ctx
    it.used.add(c.qualname)
    it.used.add(f'<abstract> {c.qualname}')
    for exc_cls in c.abstract_raises:
        may = mk_bool(ctx.fresh_bool(f'raises_{fn.__name__}_{exc_cls.__name__}'))
        if ctx.decide(may):
            raise I.PyRaise(exc_cls, ('<unparseable>',))
    if c.returns is None:
        return None
    return _abstract_value(it, c, fn, bound, f'ret_{fn.__name__}')


def _argkey(v):
    from .strings import XStr
    from .dsl import OpaqueVal
    if isinstance(v, OpaqueVal.Val):
        return ('opaque', v.name)
    if isinstance(v, XStr):
        return ('text', v.term().sexpr())
    if isinstance(v, (SInt, SEnum, SBool)):
        return ('term', v.t.sexpr())
    if isinstance(v, (str, int, bool, enum.Enum, type(None))) or isinstance(v, type):
        return ('const', repr(v))
    if type(v).__name__ == 'SDecoded':
        return ('bytes', str(v.raw.n), v.raw.arr.sexpr())
    return ('object', id(v))


def _abstract_value(it, c, fn, bound, hint):
    """The (single) value a pure parser returns for these arguments on this path."""
    ctx = it.ctx
    cache = ctx.__dict__.setdefault('abstract_cache', {})
    key = (c.qualname, tuple(_argkey(v) for v in bound.values()))
    if key in cache:
        return cache[key]
    result = c.returns.fresh(ctx, hint)
    _tie_to_uf(it, c, fn, bound, result)
    cache[key] = result
    return result


def _tie_to_uf(it, c, fn, bound, result):
    """Determinism of a pure parser: scalar results are an uninterpreted function of the argument
    terms."""
    from .strings import XStr
    from .ext import SDecoded
    ctx = it.ctx
    terms = []
    for k, v in bound.items():
        if isinstance(v, str):
            terms.append(z3.StringVal(v))
        elif isinstance(v, XStr):
            terms.append(v.term())
        elif isinstance(v, SDecoded):
            terms.append(v.raw.n if isinstance(v.raw.n, z3.ExprRef) else z3.IntVal(v.raw.n))
            terms.append(v.raw.arr)      # the byte string: (length, contents)
        elif isinstance(v, (SEnum, SInt, enum.Enum)) or is_int_like(v):
            terms.append(z3.IntVal(T(v)) if isinstance(v, int) else T(v))
        elif isinstance(v, type):
            continue
        else:
            terms = None
            break
    outs = []
    from .dsl import OpaqueVal
    if isinstance(result, OpaqueVal.Val) and terms is None:
        # an opaque result of an opaque argument: identified by the argument's identity
        ids = [getattr(v, 'name', None) for v in bound.values() if isinstance(v, OpaqueVal.Val)]
        if ids:
            result.name = f'{fn.__name__}({", ".join(ids)})'
        return
    if isinstance(result, (SEnum, SInt)):
        outs = [result.t]
    elif is_card(result) and isinstance(result, SObj):
        outs = [T(result.fields['rank']), T(result.fields['suit'])]
    if terms and outs:
        for j, o in enumerate(outs):
            key = (c.qualname, j, tuple(str(t.sort()) for t in terms))
            f = _UF.get(key)
            if f is None:
                f = _UF[key] = z3.Function(f'{fn.__name__}_{j}', *[t.sort() for t in terms],
                                           z3.IntSort())
            ctx.assume_type(o == f(*terms))


def call_by_contract(it, c, fn, bound):
    I = _I()
    ctx = it.ctx
    it.used.add(c.qualname)
    where = ctx.where
    caller = it.current_fn[-1].__qualname__ if it.current_fn else '<top>'
    tag = f'{caller}/call:{fn.__qualname__}'
    ns = dict(bound)
    # vacuity guard: every call instance (callee, call site, decisions taken before it) must have
    # at least one outcome -- a havoc alternative that survives the callee's postconditions, or an
    # exceptional exit -- unless the caller's own state is contradictory there
    cid = None
    if not ctx.nofork:
        import hashlib
        cid = hashlib.sha1(repr((c.qualname, where, ctx.script[:ctx.pos])).encode()).hexdigest()[:12]
        it.used.add(f'<call-begin> {cid} {c.qualname} @ {where}')
        if not hasattr(it, 'calls_passed'):
            it.calls_passed = []
        it.calls_passed.append(cid)
    # class invariant of the receiver is part of the precondition
    cc = it.registry.class_contract_of(c)
    for name, rfn in c.requires:
        t = it.truth(eval_clause(it, rfn, ns))
        ctx.oblige(f'{tag}.pre/{name}', t, where=where)
        ctx.assume(t)
    if cc is not None and cc.inv is not None and not c.is_init and 'self' in ns and \
            not c.skip_inv_at_call:
        t = it.truth(run_inv(it, cc, ns['self']))
        ctx.oblige(f'{tag}.pre/inv', t, where=where)
        ctx.assume(t)
    need_old = bool(c.ensures) or any(True for _ in c.raises) or bool(c.modifies)
    old = make_old(it, bound) if (need_old and not c.functional) or c.raises_need_old else None
    ns['old'] = old
    # exceptional outcomes
    for exc_cls, (kind, cfn) in c.raises.items():
        cond = it.truth(eval_clause(it, cfn, ns)) if cfn is not None else True
        def raise_it():
            # what is known when the callee raises: its exceptional postconditions (and, unless it
            # declares exc_havoc, that nothing in its frame changed)
            if c.exc_havoc:
                havoc_frame(it, c, bound)
            ns_e = dict(ns)
            ns_e['exc'] = exc_cls
            it.assuming = getattr(it, 'assuming', 0) + 1
            try:
                for _n, efn in c.exc_ensures:
                    if 'frame' in signature(efn).parameters:
                        continue
                    try:
                        ctx.assume(it.truth(eval_clause(it, efn, ns_e)))
                    except V.PendingRead:
                        pass
                # the callee also proves its class invariant on exceptional exits (excinv)
                if cc is not None and cc.inv is not None and c.check_inv and not c.is_init and \
                        'self' in ns:
                    ctx.assume(it.truth(run_inv(it, cc, ns['self'])))
            finally:
                it.assuming -= 1
            raise I.PyRaise(exc_cls, ('<by contract>',))
        if kind == 'iff':
            if ctx.decide(cond):
                raise_it()
        else:  # 'onlyif' : may raise when cond holds
            may = mk_bool(ctx.fresh_bool(f'raises_{fn.__name__}_{exc_cls.__name__}'))
            if ctx.decide(b_and(cond, may)):
                raise_it()
    if c.functional:
        return eval_clause(it, c.result_fn, ns)
    # general: havoc the frame, fresh result, assume ensures
    if c.is_init and cc is not None and cc.shape is not None and isinstance(ns.get('self'), SObj):
        _obj_shape(cc.shape).havoc(ctx, ns['self'], 'new')   # the constructed object's fields
    havoc_frame(it, c, bound)
    if c.result_fn is not None:
        ns_old = dict(old.fields) if old is not None else dict(bound)
        ns_old['old'] = old
        result = eval_clause(it, c.result_fn, ns_old)
    elif c.returns is not None:
        result = c.returns.fresh(ctx, f'ret_{fn.__name__}')
    else:
        result = None
    ns['result'] = result
    it.assuming = getattr(it, 'assuming', 0) + 1
    try:
        for name, efn in c.ensures:
            if 'frame' in signature(efn).parameters:
                continue          # speaks about the callee's locals: not visible to a caller
            try:
                ctx.assume(it.truth(eval_clause(it, efn, ns)))
            except V.PendingRead:
                # the clause inspects a trace the callee does not define by an equation: a caller
                # learns nothing from it (assuming less is sound)
                it.used.add(f'<skipped-at-call> {c.qualname}: {name}')
    finally:
        it.assuming -= 1
    if cc is not None and cc.inv is not None and 'self' in ns and c.check_inv:
        ctx.assume(it.truth(run_inv(it, cc, ns['self'])))
    return result


def _obj_shape(shape):
    from . import dsl
    while isinstance(shape, dsl.Ref):
        shape = shape._s()
    return shape


def _sub_shape(shape, name):
    from . import dsl
    shape = _obj_shape(shape)
    if isinstance(shape, (dsl.Obj, dsl.Ext)):
        return shape.fields.get(name)
    return None


def _fields_of(v):
    from .ext import SExt
    if isinstance(v, (SObj, SExt)):
        return v.fields
    return None


def havoc_frame(it, c, bound):
    """Havoc every location named in `modifies`: 'param' (the whole object, by its shape) or a
    field path 'param.f.g' through objects / external objects."""
    for pname in c.modifies:
        parts = pname.split('.')
        obj = bound[parts[0]]
        shape = _obj_shape(c.shape_of(parts[0], it.registry))
        if shape is None:
            raise EngineError(f'{c.qualname}: no shape to havoc {pname}')
        if len(parts) == 1:
            shape.havoc(it.ctx, obj, f'h_{pname}')
            continue
        for part in parts[1:-1]:
            shape = _sub_shape(shape, part)
            flds = _fields_of(obj)
            if shape is None or flds is None or part not in flds:
                raise EngineError(f'{c.qualname}: unsupported frame path {pname}')
            obj = flds[part]
        leaf = parts[-1]
        fshape = _sub_shape(shape, leaf)
        flds = _fields_of(obj)
        if fshape is None or flds is None:
            raise EngineError(f'{c.qualname}: no shape for {pname}')
        cur = flds.get(leaf)
        from . import dsl
        if isinstance(cur, Mut) and not (isinstance(cur, SObj) and cur.frozen) and \
                not isinstance(fshape, (dsl.Opt, dsl.OneOf, dsl.Const)):
            fshape.havoc(it.ctx, cur, f'h_{pname}')
        else:
            flds[leaf] = fshape.fresh(it.ctx, f'h_{pname}')


def _same_except(it, v, ov, paths, prefix):
    """deep_same(v, ov) except below the given field paths (tuples of names)."""
    if prefix in paths:
        return True
    if not any(p[:len(prefix)] == prefix for p in paths):
        return deep_same(it, v, ov)
    fv, fo = _fields_of(v), _fields_of(ov)
    if fv is None or fo is None:
        return deep_same(it, v, ov)
    out = []
    skip = getattr(v, 'aliases', ())
    for k in fv:
        if k in skip:
            continue                 # an alias of another field of the same object
        if k not in fo:
            out.append(False)
            continue
        out.append(_same_except(it, fv[k], fo[k], paths, prefix + (k,)))
    return b_and(*out)


def frame_condition(it, c, bound, old):
    """Everything reachable from the parameters that is NOT in `modifies` is unchanged."""
    conj = []
    paths = {tuple(m.split('.')) for m in c.modifies}
    for pname, v in bound.items():
        if (pname,) in paths or (c.is_init and pname == 'self'):
            continue
        ov = old.fields[pname]
        if isinstance(v, Mut) and not (isinstance(v, SObj) and v.frozen):
            conj.append(_same_except(it, v, ov, paths, (pname,)))
    return b_and(*conj)


def separation_ok(root, declared=None):
    """The shapes promise that the mutable parts of an object are pairwise distinct objects (the
    object graph below `root` is a tree).  Identities are concrete in the evaluator, so this is a
    syntactic check: False iff two access paths reach the same mutable container.  `declared`
    ({field: other field} from the Alias entries of the class shape) names the sharing the shape
    itself promises for the root object: such a field is skipped only if it really holds the
    object of the other field."""
    seen = set()
    if declared and isinstance(root, SObj) and not getattr(root, 'aliases', None):
        ok = {k for k, o in declared.items()
              if k in root.fields and o in root.fields and root.fields[k] is root.fields[o]}
        if ok:
            root.aliases = ok
    stack = [root]
    while stack:
        v = stack.pop()
        if isinstance(v, SOpt):
            stack.append(v.inner)
            continue
        if isinstance(v, tuple):
            stack.extend(v)
            continue
        if not isinstance(v, Mut) or (isinstance(v, SObj) and v.frozen):
            continue
        if v.oid in seen:
            return False
        seen.add(v.oid)
        if isinstance(v, SObj):
            skip = getattr(v, 'aliases', ())
            stack.extend(x for k, x in v.fields.items() if k not in skip)
        elif isinstance(v, SDict):
            stack.extend(v.d.values())
        elif isinstance(v, SList):
            stack.extend(v.items)
    return True


# ------------------------------------------------------------------------------------------------
# classes


def instantiate(it, cls, args, kwargs):
    I = _I()
    if issubclass(cls, enum.Enum):
        if len(args) != 1:
            raise EngineError('Enum functional API')
        return enum_by_value(it, cls, args[0])
    if issubclass(cls, BaseException):
        return I.ExcValue(cls, list(args))
    if cls in (int, str, bool, list, tuple, set, dict, float, bytes, frozenset, type, object,
               range, enumerate, zip, map, reversed):
        return it.models_mod.call_native(it, cls, args, kwargs)
    if dataclasses.is_dataclass(cls):
        flds = dataclasses.fields(cls)
        names = [f.name for f in flds]
        vals = {}
        if len(args) > len(names):
            raise I.PyRaise(TypeError, ('too many arguments',))
        for n, v in zip(names, args):
            vals[n] = v
        for k, v in kwargs.items():
            if k not in names or k in vals:
                raise I.PyRaise(TypeError, (f'unexpected argument {k}',))
            vals[k] = v
        for f in flds:
            if f.name not in vals:
                if f.default is not dataclasses.MISSING:
                    vals[f.name] = f.default
                elif f.default_factory is not dataclasses.MISSING:
                    raise EngineError('default_factory')
                else:
                    raise I.PyRaise(TypeError, (f'missing argument {f.name}',))
        frozen = cls.__dataclass_params__.frozen
        if cls is V.card_cls():
            obj = mk_card(vals['rank'], vals['suit'])
        else:
            obj = SObj(cls, {n: vals[n] for n in names}, frozen=frozen)
        pi = it.lookup_class_attr(cls, '__post_init__')
        if pi is not None:
            call_function(it, pi, [obj], {})
        return obj
    if issubclass(cls, tuple) and hasattr(cls, '_fields'):  # NamedTuple
        names = list(cls._fields)
        vals = dict(zip(names, args))
        vals.update(kwargs)
        for n in names:
            if n not in vals:
                if n in cls._field_defaults:
                    vals[n] = cls._field_defaults[n]
                else:
                    raise I.PyRaise(TypeError, (f'missing argument {n}',))
        return SObj(cls, {n: vals[n] for n in names}, frozen=True)
    mod = (cls.__module__ or '').split('.')[0]
    if mod in ('bridge_env', 'spec', 'contracts'):
        obj = SObj(cls)
        init = it.lookup_class_attr(cls, '__init__')
        if init is not None and inspect.isfunction(init):
            call_function(it, init, [obj] + list(args), kwargs)
        return obj
    return it.models_mod.call_native(it, cls, args, kwargs)


def enum_by_value(it, cls, v):
    I = _I()
    info = EnumInfo.of(cls)
    if isinstance(v, (SEnum, enum.Enum)) and V.enum_cls_of(v) is cls:
        return v
    if isinstance(v, SInt) and info.by_value:
        if not it.ctx.decide(mk_bool(info.in_range(v.t))):
            raise I.PyRaise(ValueError, (f'not a valid {cls.__name__}',))
        return mk_enum(cls, v.t)
    if isinstance(v, Sym):
        raise EngineError(f'{cls.__name__}({v!r})')
    try:
        return cls(v)
    except ValueError as e:
        raise I.PyRaise(ValueError, e.args)


# ------------------------------------------------------------------------------------------------
# intrinsics (pyvc.speclib)


import os as _os
_DEBUG_CONJ = bool(_os.environ.get('PYVC_DEBUG_CONJ'))


def _call_pred(it, pred, x):
    return it.truth(call(it, pred, [x], {}))


def intrinsic(it, name, args, kwargs):
    if name == 'implies':
        return b_implies(it.truth(args[0]), it.truth(args[1]))
    if name == 'iff':
        a, b = it.truth(args[0]), it.truth(args[1])
        return it.eq_bool(a if isinstance(a, bool) else BT(a), b if isinstance(b, bool) else BT(b))
    if name == 'ite':
        c = it.truth(args[0])
        if isinstance(c, bool):
            return args[1] if c else args[2]
        try:
            return V.merge(BT(c), args[1], args[2])
        except CannotMerge:
            return args[1] if it.ctx.decide(c) else args[2]
    if name in ('conj', 'disj'):
        ts = [it.truth(a) for a in args]
        if name == 'conj' and _DEBUG_CONJ and any(t is False for t in ts):
            import sys
            print('CONJ-FALSE at', it.ctx.where, [i for i, t in enumerate(ts) if t is False],
                  file=sys.stderr)
        return b_and(*ts) if name == 'conj' else b_or(*ts)
    if name in ('forall', 'exists', 'count'):
        xs, pred = args
        items = it.iterate_guarded(xs)
        ts = []
        for g, x in items:
            p = _call_pred(it, pred, x)
            ts.append((g, p))
        if name == 'forall':
            return b_and(*[b_implies(g, p) for g, p in ts])
        if name == 'exists':
            return b_or(*[b_and(g, p) for g, p in ts])
        tot = 0
        for g, p in ts:
            c = b_and(g, p)
            if c is True:
                tot = it.binop(ast.Add(), tot, 1)
            elif c is not False:
                tot = it.binop(ast.Add(), tot, mk_int(z3.If(BT(c), 1, 0)))
        return tot
    if name == 'forall_int':
        lo, hi, pred = args
        if isinstance(lo, int) and isinstance(hi, int):
            return b_and(*[_call_pred(it, pred, i) for i in range(lo, hi)])
        j = it.ctx.fresh_int('q')
        body = _call_pred(it, pred, SInt(j))
        rng = z3.And(T(lo) <= j, j < T(hi))
        return mk_bool(z3.ForAll([j], z3.Implies(rng, BT(body))))
    if name == 'same':
        return deep_same(it, args[0], args[1])
    if name == 'seq_len':
        return it.models_mod.py_len(it, args[0])
    if name in ('seq_get', 'vec_get'):
        return spec_get(it, args[0], args[1])
    if name == 'card_in':
        return it.contains(args[1], args[0])
    if name == 'is_none':
        return it.identical(args[0], None)
    if name == 'opt_eq':
        return it.eq(args[0], args[1])
    if name in ('set_added', 'set_removed'):
        new, old, x = args
        new, old = it.unopt(new), it.unopt(old)
        if not (isinstance(new, SCardSet) and isinstance(old, SCardSet) and is_card(x)):
            raise EngineError(f'{name}: card sets only')
        idx = V.card_index(x)
        out = []
        for i in range(52):
            hit = (idx == i) if isinstance(idx, int) else mk_bool(idx == i)
            want = b_or(old.guards[i], hit) if name == 'set_added' else \
                b_and(old.guards[i], b_not(hit))
            out.append(it.eq_bool(new.guards[i], want))
        return b_and(*out)
    if name == 'sets_disjoint':
        out = []
        args = [it.unopt(a) for a in args]
        for i in range(52):
            gs = [s_.guards[i] for s_ in args]
            for a in range(len(gs)):
                for b in range(a + 1, len(gs)):
                    out.append(b_not(b_and(gs[a], gs[b])))
        return b_and(*out)
    if name == 'distinct':
        out = []
        for a in range(len(args)):
            for b in range(a + 1, len(args)):
                out.append(b_not(it.eq(args[a], args[b])))
        return b_and(*out)
    if name == 'load_schema':
        return speclib.load_schema(*args)
    if name == 'json_conforms':
        return json_conforms(it, args[0], args[1], '$')
    if name == 'json_text':
        return it.models_mod._json_dumps(it, args[0])
    if name == 'calls_since':
        return len(_log_entries(it, args[0], args[1]))
    if name == 'last_call_raised':
        es = _log_entries(it, args[0], args[1])
        return len(es) > 0 and not es[-1]['done']
    if name in ('call_result', 'call_arg', 'call_self_after'):
        es = _log_entries(it, args[0], args[1])
        k = args[2]
        if not isinstance(k, int) or not (0 <= k < len(es)):
            raise EngineError(f'{name}: there is no call number {k}')
        if name == 'call_arg':
            return es[k]['args'][args[3]]
        if name == 'call_self_after':
            if not es[k]['done'] or es[k].get('self_after') is None:
                raise EngineError('call_self_after: that call did not return')
            return es[k]['self_after']
        if not es[k]['done']:
            raise EngineError('call_result: that call did not return')
        return es[k]['result']
    if name == 'local_assigned':
        fr_, nm = args
        v = fr_.fields.get(nm, UNBOUND)
        return not (v is UNBOUND or v is V.LOOP_UNKNOWN)
    if name == 'abstract_result':
        f = getattr(args[0], '__func__', args[0])
        c2 = it.registry.lookup(f)
        if c2 is None:
            raise EngineError('abstract_result: no contract')
        b2 = bind_args(f, list(args[1:]), {})
        return _abstract_value(it, c2, f, b2, f'spec_{f.__name__}')
    if name in ('text_len', 'char_code', 'is_suffix_view'):
        from .ext import SCharSeq
        from .strings import XStr
        if name == 'text_len':
            x = args[0]
            return x.length() if isinstance(x, (SCharSeq, XStr)) else len(x)
        if name == 'char_code':
            x, i = args
            if isinstance(x, SCharSeq):
                return mk_int(z3.Select(x.arr, T(x.off) + T(i)))
            return ord(x[i]) if isinstance(i, int) and 0 <= i < len(x) else -1
        a, b = args
        if isinstance(a, SCharSeq) and isinstance(b, SCharSeq):
            same_arr = True if a.arr.eq(b.arr) else mk_bool(a.arr == b.arr)
            return b_and(same_arr, mk_bool(T(a.off) >= T(b.off)),
                         mk_bool(T(a.off) + T(a.n) == T(b.off) + T(b.n)))
        raise EngineError('is_suffix_view of non-symbolic texts')
    if name == 'starts_with':
        from .strings import XStr
        x, lit = args
        if isinstance(x, str):
            return x.startswith(lit)
        if isinstance(x, XStr) and x.segs and x.segs[0][0] is True and isinstance(x.segs[0][1], str) \
                and len(x.segs[0][1]) >= len(lit):
            return x.segs[0][1].startswith(lit)
        if isinstance(x, XStr) and x.alts is not None:
            return b_or(*[g for g, t in x.alts if t.startswith(lit)])
        raise EngineError(f'starts_with({x!r}, {lit!r})')
    if name == 'run_real':
        f = args[0]
        f = getattr(f, '__func__', f)
        it.inline_all = getattr(it, 'inline_all', 0) + 1
        try:
            return run_body(it, f, bind_args(f, list(args[1:]), {}))
        finally:
            it.inline_all -= 1
    if name == 'line_kind':
        return mk_int(args[0].kind())
    if name == 'bytes_seq':
        from . import ext as _ext
        from .dsl import IntElem
        b = args[0]
        if isinstance(b, bytes):
            return SList(list(b))
        return SSeq(b.n, b.arr, IntElem())
    if name in ('sock_data', 'sock_pos', 'sock_sent', 'utf8', 'new_socket'):
        from . import ext as _ext
        from .dsl import IntElem
        if name == 'sock_data':
            return args[0].fields['data']
        if name == 'sock_pos':
            return args[0].fields['pos']
        if name == 'sock_sent':
            return args[0].fields['sent']
        if name == 'utf8':
            x = args[0]
            if isinstance(x, _ext.SDecoded):
                return SSeq(x.raw.n, x.raw.arr, IntElem())
            if isinstance(x, str):
                return SList(list(x.encode('utf-8')))
            raise EngineError('utf8() of a structured string')
        data, pos = args
        return _ext.SExt('socket', dict(data=data, pos=pos, sent=SList([]), closed=False))
    if name == 'set_ite':
        c, a, b = args
        c = it.truth(c)
        if isinstance(c, bool):
            return SCardSet((a if c else b).guards)
        return SCardSet([b_ite(c, x, y) for x, y in zip(a.guards, b.guards)])
    if name == 'new_object':
        cls, fields = args
        return SObj(cls, dict(fields.d) if isinstance(fields, SDict) else dict(fields))
    if name == 'opt_or':
        x, d = args
        if x is None:
            return d
        if isinstance(x, SOpt):
            return V.merge(BT(x.isnone), d, x.inner)
        return x
    if name == 'seq_appended':
        new, old, x = args
        return seq_appended(it, new, old, x)
    if name == 'seq_last_is':
        xs, k, v = args
        n = it.models_mod.py_len(it, xs)
        ok = it.compare(ast.GtE(), n, k)
        if ok is False:
            return False
        e = spec_get(it, xs, it.binop(ast.Sub(), n, k))
        return b_and(ok, it.identical(e, v))
    raise EngineError(f'intrinsic {name}')


_JSON_KINDS = {'null', 'boolean', 'integer', 'number', 'string', 'array', 'object'}


def json_conforms(it, v, node, path):
    """Structural schema check of a symbolic JSON value: the JSON kind of every value is
    determined by its sort (Int -> integer, string -> string, option -> null or inner, list ->
    array, dict -> object); `required`, `properties` and `items` are followed."""
    from .strings import XStr
    from .ext import JDump
    if isinstance(v, SOpt):
        return b_or(b_and(mk_bool(v.isnone), json_conforms(it, None, node, path)),
                    b_and(b_not(mk_bool(v.isnone)), json_conforms(it, v.inner, node, path)))
    if v is None:
        kind = 'null'
    elif isinstance(v, (bool, SBool)):
        kind = 'boolean'
    elif is_int_like(v):
        kind = 'integer'
    elif isinstance(v, (str, XStr)):
        kind = 'string'
    elif isinstance(v, (SList, GList, V.SMap, SSeq, tuple, list)):
        kind = 'array'
    elif isinstance(v, (SDict, dict)):
        kind = 'object'
    else:
        raise EngineError(f'json_conforms: value of unknown JSON kind at {path}: {v!r}')
    t = node.get('type')
    if t is not None:
        allowed = set(t if isinstance(t, list) else [t])
        if not (allowed <= _JSON_KINDS):
            raise EngineError(f'schema type {t}')
        if kind not in allowed and not (kind == 'integer' and 'number' in allowed):
            it.schema_misfit = getattr(it, 'schema_misfit', []) + [(path, kind, sorted(allowed))]
            return False
    out = []
    if kind == 'object':
        d = v.d if isinstance(v, SDict) else v
        for k in node.get('required', []):
            if k not in d:
                return False
        for k, sub in node.get('properties', {}).items():
            if k in d:
                out.append(json_conforms(it, d[k], sub, f'{path}.{k}'))
    if kind == 'array' and 'items' in node:
        sub = node['items']
        if isinstance(v, V.SMap):
            base = v.base()
            k = it.ctx.fresh_int('item')
            tt = z3.Select(base.arr, k)
            tc = base.elem.typ(tt)
            if tc is not None:
                it.ctx.assume_type(tc)
            out.append(json_conforms(it, v.at(base.elem.wrap(tt)), sub, path + '[]'))
        elif isinstance(v, SSeq):
            k = it.ctx.fresh_int('item')
            out.append(json_conforms(it, v.elem.wrap(z3.Select(v.arr, k)), sub, path + '[]'))
        else:
            for g, x in it.iterate_guarded(v):
                out.append(b_implies(g, json_conforms(it, x, sub, path + '[]')))
    for kw in node:
        if kw not in ('type', 'properties', 'required', 'items', 'description', '$schema',
                      'definitions'):
            raise EngineError(f'schema keyword {kw!r} is not modelled')
    return b_and(*out)


def seq_appended(it, new, old, x):
    if isinstance(old, SList) and isinstance(new, SList):
        return it.eq(new, SList(old.items + [x]))
    if isinstance(old, SList):
        old_n, get_old = len(old.items), None
    if isinstance(new, SSeq) and isinstance(old, SSeq):
        want = z3.Store(old.arr, T(old.n), new.elem.unwrap(x))
        same_arr = True if z3.simplify(new.arr).eq(z3.simplify(want)) else mk_bool(new.arr == want)
        return b_and(mk_bool(T(new.n) == T(old.n) + 1), same_arr)
    if isinstance(new, SSeq) and isinstance(old, SList):
        conj = [mk_bool(T(new.n) == len(old.items) + 1)]
        for i, y in enumerate(old.items + [x]):
            conj.append(mk_bool(z3.Select(new.arr, i) == new.elem.unwrap(y)))
        return b_and(*conj)
    if isinstance(new, SList) and isinstance(old, SSeq):
        k = len(new.items)
        if k == 0:
            return False
        conj = [mk_bool(T(old.n) == k - 1), it.eq(new.items[-1], x)]
        for i, y in enumerate(new.items[:-1]):
            conj.append(mk_bool(z3.Select(old.arr, i) == old.elem.unwrap(y)))
        return b_and(*conj)
    raise EngineError('seq_appended')


def spec_get(it, xs, i):
    """Total select used by specs: no bounds fork (the spec guards the index itself)."""
    if isinstance(xs, SSeq):
        t = z3.Select(xs.arr, T(i))
        return xs.elem.wrap(t)
    if isinstance(xs, SVec):
        if isinstance(i, int):
            return xs.slots[i]
        acc = xs.slots[-1]
        for k in range(len(xs.slots) - 2, -1, -1):
            acc = V.merge(z3.simplify(T(i) == k), xs.slots[k], acc)
        return acc
    if isinstance(xs, (SList, tuple)):
        items = xs.items if isinstance(xs, SList) else list(xs)
        if isinstance(i, int):
            return items[i] if 0 <= i < len(items) else None
        if not items:
            return None
        acc = items[-1]
        for k in range(len(items) - 2, -1, -1):
            acc = V.merge(z3.simplify(T(i) == k), items[k], acc)
        return acc
    return it.getitem(xs, i)


def deep_same(it, a, b, seen=None):
    """Deep structural equality of two object graphs as a Bool value."""
    if a is b:
        return True
    if isinstance(a, SObj) and isinstance(b, SObj):
        if a.cls is not b.cls:
            return False
        if a.fields.keys() != b.fields.keys():
            return False
        if seen is None:
            seen = set()
        key = (a.oid, b.oid)
        if key in seen:
            return True
        seen.add(key)
        skip = getattr(a, 'aliases', ()) or getattr(b, 'aliases', ())
        return b_and(*[deep_same(it, a.fields[k], b.fields[k], seen) for k in a.fields
                       if k not in skip])
    if isinstance(a, SDict) and isinstance(b, SDict):
        if list(a.d.keys()) != list(b.d.keys()):
            return False
        return b_and(*[deep_same(it, a.d[k], b.d[k], seen) for k in a.d])
    if isinstance(a, SList) and isinstance(b, SList):
        if len(a.items) != len(b.items):
            return False
        return b_and(*[deep_same(it, x, y, seen) for x, y in zip(a.items, b.items)])
    if isinstance(a, tuple) and isinstance(b, tuple):
        if len(a) != len(b):
            return False
        return b_and(*[deep_same(it, x, y, seen) for x, y in zip(a, b)])
    from .ext import SExt
    if isinstance(a, SOpt) or isinstance(b, SOpt):
        ia, va = V._split_opt(a)
        ib, vb = V._split_opt(b)
        both_none = b_and(ia, ib)
        if va is None or vb is None:
            return both_none
        return b_or(both_none, b_and(b_not(ia), b_not(ib), deep_same(it, va, vb, seen)))
    if isinstance(a, SExt) and isinstance(b, SExt):
        if a.kind != b.kind or a.fields.keys() != b.fields.keys():
            return False
        return b_and(*[deep_same(it, a.fields[k], b.fields[k], seen) for k in a.fields])
    if isinstance(a, V.SMap) or isinstance(b, V.SMap):
        return V.smap_eq(it, a, b)
    from .strings import XStr
    if isinstance(a, (str, XStr)) and isinstance(b, (str, XStr)):
        return it.eq(a, b)
    if isinstance(a, GList) and isinstance(b, GList):
        return it.glist_eq(a, b)
    if isinstance(a, SSeq) and isinstance(b, SSeq):
        # equal as Python lists: same length and same elements below the length
        if isinstance(a.arr, z3.ExprRef) and a.arr.eq(b.arr):
            return mk_bool(T(a.n) == T(b.n))
        j = it.ctx.fresh_int('k')
        return b_and(mk_bool(T(a.n) == T(b.n)),
                     mk_bool(z3.ForAll([j], z3.Implies(z3.And(0 <= j, j < T(a.n)),
                                                       z3.Select(a.arr, j) == z3.Select(b.arr, j)))))
    return it.eq(a, b)

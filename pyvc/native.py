"""Bridging evaluator values and real Python objects; evaluating contracts natively (CPython) on the
real code -- used for replaying counter-models, for the bounded stand-ins and for the semantics
cross-check of the evaluator."""
from __future__ import annotations

import copy
import dataclasses
import enum
import inspect
import types

from . import values as V
from .values import (EngineError, GList, SCardSet, SDict, SList, SObj, SSet, SVec)

try:
    import numpy as np
except Exception:  # pragma: no cover
    np = None


class CannotLower(Exception):
    pass


def lower(v, memo=None):
    """Concrete evaluator value -> real Python object."""
    if memo is None:
        memo = {}
    if isinstance(v, V.Mut) and v.oid in memo:
        return memo[v.oid]
    if isinstance(v, SObj):
        cls = v.cls
        if cls is types.SimpleNamespace:
            r = types.SimpleNamespace()
            memo[v.oid] = r
            for k, x in v.fields.items():
                setattr(r, k, lower(x, memo))
            return r
        if issubclass(cls, tuple) and hasattr(cls, '_fields'):
            return cls(**{k: lower(x, memo) for k, x in v.fields.items()})
        r = object.__new__(cls)
        import threading
        if issubclass(cls, threading.Thread):
            threading.Thread.__init__(r, daemon=True)
        memo[v.oid] = r
        for k, x in v.fields.items():
            val = lower(x, memo)
            try:
                object.__setattr__(r, k, val)
            except Exception:
                r.__dict__[k] = val
        return r
    if type(v).__name__ == 'SExt':
        from .ext import FakeSocket
        if v.kind == 'socket':
            data = lower(v.fields['data'], memo)
            r = FakeSocket(bytes(x % 256 for x in data), lower(v.fields['pos'], memo),
                           lower(v.fields.get('sent', SList()), memo),
                           closed=bool(lower(v.fields.get('closed', False), memo)),
                           connected=bool(lower(v.fields.get('connected', True), memo)))
            memo[v.oid] = r
            return r
        if v.kind == 'queue':
            from .ext import FakeQueue
            r = FakeQueue(lower(v.fields.get('out', SList()), memo),
                          lower(v.fields.get('gets', SList()), memo))
            memo[v.oid] = r
            return r
        if v.kind == 'event':
            from .ext import FakeEvent
            r = FakeEvent()
            memo[v.oid] = r
            return r
        if v.kind == 'jsonfile':
            # a document whose lists are all empty is a real file; records are opaque otherwise
            doc = v.fields['doc']
            if isinstance(doc, SDict) and all(
                    getattr(x, 'kind', None) == 'boardlist' and
                    lower(x.fields['n'], memo) == 0 for x in doc.d.values()):
                import io
                import json
                r = io.StringIO(json.dumps({k: [] for k in doc.d}))
                memo[v.oid] = r
                return r
            raise CannotLower('a JSON document with opaque records')
        if v.kind in ('boardlist', 'ssocket'):
            memo[v.oid] = None
            return None
        if v.kind == 'file':
            from .ext import FakeFile
            r = FakeFile(lower(v.fields.get('out', SList()), memo))
            memo[v.oid] = r
            return r
        raise CannotLower(f'external {v.kind}')
    if isinstance(v, SList):
        r = []
        memo[v.oid] = r
        r.extend(lower(x, memo) for x in v.items)
        return r
    if isinstance(v, SDict):
        r = {}
        memo[v.oid] = r
        for k, x in v.d.items():
            r[k] = lower(x, memo)
        return r
    if isinstance(v, SCardSet):
        r = set()
        memo[v.oid] = r
        for i, g in enumerate(v.guards):
            if g is True:
                r.add(V.concrete_card(i))
            elif g is not False:
                raise CannotLower('symbolic guard')
        return r
    if isinstance(v, SSet):
        r = set(v.items)
        memo[v.oid] = r
        return r
    if isinstance(v, SVec):
        r = np.array([float(x) if v.dtype is None else x for x in v.slots],
                     dtype=v.dtype if v.dtype is not None else float)
        memo[v.oid] = r
        return r
    if isinstance(v, tuple):
        if v and v[0] in ('<invalid>', '<card>'):
            raise CannotLower(f'ill-typed value in model: {v}')
        return tuple(lower(x, memo) for x in v)
    if type(v).__name__ == 'AbsLine':
        raise CannotLower('abstract line')
    if isinstance(v, (V.Sym, GList)):
        raise CannotLower(f'symbolic value {v!r}')
    return v


def lift(x, memo=None):
    """Real Python object -> concrete evaluator value."""
    if memo is None:
        memo = {}
    if id(x) in memo:
        return memo[id(x)]
    if x is None or isinstance(x, (bool, int, float, str, bytes, enum.Enum, type,
                                   types.FunctionType, types.ModuleType)):
        return x
    if V.card_cls() is not None and isinstance(x, V.card_cls()):
        return x
    if np is not None and isinstance(x, np.ndarray):
        r = SVec([e.item() if (e.item() != int(e.item())) else int(e.item()) for e in x],
                 None if x.dtype == float else x.dtype)
        memo[id(x)] = r
        return r
    if np is not None and isinstance(x, np.generic):
        return x.item()
    if isinstance(x, list):
        r = SList()
        memo[id(x)] = r
        r.items = [lift(e, memo) for e in x]
        return r
    if isinstance(x, tuple) and not hasattr(x, '_fields'):
        return tuple(lift(e, memo) for e in x)
    if isinstance(x, dict):
        r = SDict()
        memo[id(x)] = r
        r.d = {k: lift(e, memo) for k, e in x.items()}
        return r
    if isinstance(x, (set, frozenset)):
        if all(V.is_card(e) for e in x):
            r = SCardSet()
            memo[id(x)] = r
            for e in x:
                r.guards[V.card_index(e)] = True
            return r
        r = SSet(x)
        memo[id(x)] = r
        return r
    if hasattr(x, '_fields') and isinstance(x, tuple):
        return SObj(type(x), {k: lift(getattr(x, k), memo) for k in x._fields}, frozen=True)
    if dataclasses.is_dataclass(x):
        r = SObj(type(x), frozen=type(x).__dataclass_params__.frozen)
        memo[id(x)] = r
        r.fields = {f.name: lift(getattr(x, f.name), memo) for f in dataclasses.fields(x)}
        return r
    if hasattr(x, '__dict__'):
        r = SObj(type(x))
        memo[id(x)] = r
        r.fields = {k: lift(e, memo) for k, e in vars(x).items()}
        return r
    return x


def describe_native(x, depth=0):
    if depth > 6:
        return '...'
    if isinstance(x, enum.Enum):
        return f'{type(x).__name__}.{x.name}'
    if V.card_cls() is not None and isinstance(x, V.card_cls()):
        return str(x)
    if np is not None and isinstance(x, np.ndarray):
        return [e.item() for e in x]
    if isinstance(x, (list, tuple)):
        return [describe_native(e, depth + 1) for e in x]
    if isinstance(x, (set, frozenset)):
        return sorted((describe_native(e, depth + 1) for e in x), key=str)
    if isinstance(x, dict):
        return {str(describe_native(k)): describe_native(e, depth + 1) for k, e in x.items()}
    if isinstance(x, (int, float, str, bool, type(None))):
        return x
    if hasattr(x, '__dict__'):
        return {'__class__': type(x).__name__,
                **{k: describe_native(e, depth + 1) for k, e in vars(x).items()}}
    return repr(x)


# ------------------------------------------------------------------------------------------------
# native evaluation of a contract around the real function


def separated(root, declared=None):
    """Native counterpart of calls.separation_ok: no mutable container below root is reachable
    along two different access paths."""
    seen = set()
    stack = [root]
    if declared and hasattr(root, '__dict__'):
        # sharing that the class shape itself declares (Alias fields): one access path is dropped
        d = vars(root)
        skip = {k for k, o in declared.items() if k in d and o in d and d[k] is d[o]}
        if skip:
            seen.add(id(root))
            stack = [x for k, x in d.items() if k not in skip]
    while stack:
        v = stack.pop()
        if v is None or isinstance(v, (bool, int, float, str, bytes, enum.Enum, type, frozenset)):
            continue
        if isinstance(v, tuple):
            stack.extend(v)
            continue
        if dataclasses.is_dataclass(v) and type(v).__dataclass_params__.frozen:
            continue
        if isinstance(v, (list, dict, set)) or (np is not None and isinstance(v, np.ndarray)) \
                or hasattr(v, '__dict__'):
            if id(v) in seen:
                return False
            seen.add(id(v))
            if isinstance(v, list):
                stack.extend(v)
            elif isinstance(v, dict):
                stack.extend(v.values())
            elif hasattr(v, '__dict__') and not isinstance(v, (set,)) and \
                    not (np is not None and isinstance(v, np.ndarray)):
                stack.extend(vars(v).values())
    return True


def _pick(cfn, ns, order):
    names = list(inspect.signature(cfn).parameters)
    if all(p in ns for p in names):
        return [ns[p] for p in names]
    pos = [ns[k] for k in order]
    if len(pos) == len(names) + 1 and order and order[0] == 'cls':
        pos = pos[1:]
    if len(pos) != len(names):
        raise TypeError(f'cannot bind clause {cfn.__qualname__}')
    return pos


def native_check(c, registry, args):
    """Run the real function on real arguments under its contract, natively.

    args: dict param -> real object (will be mutated by the call).
    Returns (failures, info) with failures = [(obligation name, detail)]; obligation names are the
    same as those the verifier generates.
    """
    fn = c.fn
    short = fn.__qualname__
    order = [k for k in args if not k.startswith('ghost_')]
    failures = []
    info = {}
    cc = registry.class_contract_of(c)
    ns = dict(args)
    for name, rfn in c.requires:
        if not rfn(*_pick(rfn, ns, order)):
            return None, {'skipped': f'precondition {name} false'}
    if cc is not None and cc.inv is not None and not c.is_init and 'self' in args and c.assume_inv:
        if not cc.inv(args['self']):
            return None, {'skipped': 'class invariant false on input'}
    from .speclib import snapshot
    old = types.SimpleNamespace(**snapshot({k: v for k, v in args.items()
                                            if not k.startswith('ghost_')}))
    ns_old = dict(vars(old))
    ns_old['old'] = old
    ns['old'] = old
    for gk, gv in args.items():
        if gk.startswith('ghost_'):
            ns_old[gk] = gv
    from .ext import native_world
    try:
        with native_world():
            result = fn(*[args[k] for k in order])
            if inspect.isgeneratorfunction(fn):
                result = list(result)
        outcome = 'return'
    except BaseException as e:  # noqa
        outcome = e
    from .ext import NonTermination, ReplaySkip
    if isinstance(outcome, ReplaySkip):
        return None, {'skipped': str(outcome)}
    if isinstance(outcome, NonTermination):
        info['outcome'] = f'does not terminate: {outcome}'
        return [(f'{short}/loop0.variant', f'the call does not terminate: {outcome}')], info
    if outcome == 'return':
        info['outcome'] = 'return'
        info['result'] = describe_native(result)
        ns['result'] = result
        for name, efn in c.ensures:
            if 'frame' in inspect.signature(efn).parameters:
                continue        # speaks about the activation's locals: symbolic check only
            try:
                ok = efn(*_pick(efn, ns, order))
            except Exception as e:
                ok = False
                info[f'clause-error:{name}'] = repr(e)
            if not ok:
                failures.append((f'{short}/post/{name}', 'postcondition false'))
        for name, oname, efn in c.native_ensures:
            try:
                ok = efn(*_pick(efn, ns, order))
            except Exception as e:
                ok = False
                info[f'clause-error:{name}'] = repr(e)
            if not ok:
                failures.append((f'{short}/{oname}', f'{name} false on the real run'))
        if c.result_fn is not None:
            try:
                spec_val = c.result_fn(*_pick(c.result_fn, ns_old, order))
                from .speclib import same
                ok = same(result, spec_val) or (
                    not isinstance(result, (bool, type(None))) and
                    not isinstance(spec_val, (bool, type(None))) and
                    isinstance(result, (int, float)) and isinstance(spec_val, (int, float)) and
                    result == spec_val)
            except Exception as e:
                ok = False
                spec_val = repr(e)
            if not ok:
                failures.append((f'{short}/post/result',
                                 f'returned {describe_native(result)!r}, spec says '
                                 f'{describe_native(spec_val)!r}'))
        for exc, (kind, cfn) in c.raises.items():
            if kind == 'iff' and cfn is not None:
                if cfn(*_pick(cfn, ns_old, order)):
                    failures.append((f'{short}/noexc/{exc.__name__}',
                                     f'returned normally where {exc.__name__} is required'))
        if cc is not None and cc.inv is not None and c.check_inv and 'self' in args:
            if not cc.inv(args['self']):
                failures.append((f'{short}/inv', 'class invariant broken'))
        _decl = None
        if cc is not None and cc.shape is not None:
            from .dsl import Alias as _Alias
            from .calls import _obj_shape
            _decl = {k: s_.other for k, s_ in getattr(_obj_shape(cc.shape), 'fields', {}).items()
                     if isinstance(s_, _Alias)}
        if cc is not None and cc.shape is not None and 'self' in args and \
                not separated(args['self'], _decl):
            failures.append((f'{short}/separation',
                             'two parts of the object share one mutable container'))
    else:
        e = outcome
        info['outcome'] = f'raise {type(e).__name__}: {e}'
        decl = None
        for exc in c.raises:
            if type(e) is exc:
                decl = exc
        if decl is None and not isinstance(e, (NameError, AssertionError)):
            for exc in c.raises:
                if isinstance(e, exc):
                    decl = exc
                    break
        if decl is None:
            failures.append((f'{short}/exc/undeclared-{type(e).__name__}', repr(e)))
        else:
            kind, cfn = c.raises[decl]
            if cfn is not None and not cfn(*_pick(cfn, ns_old, order)):
                failures.append((f'{short}/exc/{decl.__name__}',
                                 f'raised {type(e).__name__} outside its stated condition'))
            ns['exc'] = type(e)
            for name, efn in c.exc_ensures:
                if 'frame' in inspect.signature(efn).parameters:
                    continue
                try:
                    ok = efn(*_pick(efn, ns, order))
                except Exception as e2:
                    ok = False
                    info[f'clause-error:{name}'] = repr(e2)
                if not ok:
                    failures.append((f'{short}/excpost/{name}', 'exceptional postcondition false'))
            ns['exc_value'] = e
            for name, oname, efn in getattr(c, 'native_exc_ensures', ()):
                try:
                    ok = efn(*_pick(efn, ns, order))
                except Exception as e2:
                    ok = False
                    info[f'clause-error:{name}'] = repr(e2)
                if not ok:
                    failures.append((f'{short}/{oname}', f'{name} false on the real run'))
            if cc is not None and cc.inv is not None and c.check_inv and not c.is_init \
                    and 'self' in args:
                if not cc.inv(args['self']):
                    failures.append((f'{short}/excinv', 'class invariant broken on exception'))
    return failures, info


def sample_args(c, registry, rng):
    """Random in-shape real arguments for a contracted function (None if a shape cannot sample)."""
    sig = inspect.signature(c.fn)
    cc = registry.class_contract_of(c)
    out = {}
    joint = c.sample_params(rng) if c.sample_params is not None else {}
    for gk, gv in joint.items():
        if gk.startswith('ghost_'):
            out[gk] = gv
    try:
        return _sample_rest(c, registry, rng, sig, cc, joint, out)
    except CannotLower:
        return None          # arguments that are external objects: no native sampler


def _sample_rest(c, registry, rng, sig, cc, joint, out):
    for pname, p in sig.parameters.items():
        if pname in joint:
            out[pname] = joint[pname]
        elif pname in c.params:
            out[pname] = lower(c.params[pname].sample(rng))
        elif pname == 'self' and cc is not None and cc.shape is not None:
            if c.is_init:
                out[pname] = object.__new__(cc.cls)
            elif getattr(cc, 'sample', None) is not None:
                out[pname] = cc.sample(rng)
            else:
                out[pname] = lower(cc.shape.sample(rng))
        elif p.default is not inspect.Parameter.empty:
            out[pname] = p.default
        else:
            return None
    return out

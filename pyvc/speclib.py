"""Spec vocabulary usable in contracts and spec functions.

Every function here has two semantics: the plain-Python one below (used when a contract is evaluated
natively on real objects during replay / run-time checking) and a symbolic one built into the
evaluator (pyvc.interp recognises these functions by identity and does not look at their bodies).
"""
import enum


def implies(a, b):
    return (not a) or bool(b)


def iff(a, b):
    return bool(a) == bool(b)


def ite(c, a, b):
    return a if c else b


def forall(xs, pred):
    return all(pred(x) for x in xs)


def exists(xs, pred):
    return any(pred(x) for x in xs)


def count(xs, pred):
    return sum(1 for x in xs if pred(x))


def conj(*xs):
    return all(xs)


def disj(*xs):
    return any(xs)


def forall_int(lo, hi, pred):
    """forall i in [lo, hi): pred(i)  -- symbolic bounds allowed (real quantifier in the solver)."""
    return all(pred(i) for i in range(lo, hi))


def _np():
    import numpy
    return numpy


import threading as _threading
_THREAD_INTERNALS = frozenset(vars(_threading.Thread()).keys())


def public_vars(o):
    """vars(o) without the bookkeeping attributes of threading.Thread (locks cannot be copied or
    compared; the contracts never speak about them)."""
    d = vars(o)
    if isinstance(o, _threading.Thread):
        return {k: v for k, v in d.items() if k not in _THREAD_INTERNALS or k == '_name'}
    return d


def snapshot(x):
    """Deep copy for `old`: like copy.deepcopy, but Thread objects are copied without their locks."""
    import copy
    memo = {}

    def pre(v, seen):
        if id(v) in seen:
            return
        seen.add(id(v))
        if isinstance(v, _threading.Thread):
            new = object.__new__(type(v))
            memo[id(v)] = new
            for k, w in public_vars(v).items():
                pre(w, seen)
            new.__dict__.update({k: copy.deepcopy(w, memo) for k, w in public_vars(v).items()})
        elif isinstance(v, dict):
            for w in v.values():
                pre(w, seen)
        elif isinstance(v, (list, tuple)):
            for w in v:
                pre(w, seen)
    pre(x, set())
    return copy.deepcopy(x, memo)


def same(a, b):
    """Deep structural equality of two values / object graphs (used for 'nothing changed')."""
    np = _np()
    if a is b:
        return True
    if isinstance(a, np.ndarray) or isinstance(b, np.ndarray):
        return isinstance(a, np.ndarray) and isinstance(b, np.ndarray) and a.shape == b.shape \
            and bool((a == b).all())
    if isinstance(a, enum.Enum) or isinstance(b, enum.Enum):
        return a is b
    if type(a) is not type(b):
        return False
    if isinstance(a, (list, tuple)):
        return len(a) == len(b) and all(same(x, y) for x, y in zip(a, b))
    if isinstance(a, dict):
        return list(a.keys()) == list(b.keys()) and all(same(a[k], b[k]) for k in a)
    if isinstance(a, (set, frozenset)):
        return a == b
    if isinstance(a, (int, float, str, bytes, bool, type(None))):
        return a == b
    if hasattr(a, '__dict__'):
        return same(public_vars(a), public_vars(b))
    return a == b


def seq_len(xs):
    return len(xs)


def seq_get(xs, i):
    """xs[i] for 0 <= i < len(xs); total at spec level: None outside the range (callers guard the
    index, but clause arguments are evaluated eagerly)."""
    return xs[i] if 0 <= i < len(xs) else None


def vec_get(v, i):
    return v[i]


def card_in(card, s):
    return card in s


def is_none(x):
    return x is None


def opt_eq(a, b):
    """Equality of two optional enum/int values (None == None)."""
    return a is b if (a is None or b is None or isinstance(a, enum.Enum)) else a == b


def opt_or(x, default):
    """x if x is not None else default."""
    return default if x is None else x


def seq_appended(new, old, x):
    """new == old + [x]"""
    return list(new) == list(old) + [x]


def seq_last_is(xs, k, v):
    """len(xs) >= k and xs[-k] is v   (k >= 1 concrete)."""
    return len(xs) >= k and xs[-k] is v


def set_added(new, old, x):
    """new == old | {x}"""
    return set(new) == set(old) | {x}


def set_removed(new, old, x):
    """new == old - {x}"""
    return set(new) == set(old) - {x}


def sets_disjoint(*sets):
    """The given sets are pairwise disjoint."""
    return all(a.isdisjoint(b) for i, a in enumerate(sets) for b in sets[i + 1:])


def distinct(*xs):
    return all(x != y for i, x in enumerate(xs) for y in xs[i + 1:])


def sock_data(sock):
    """The whole incoming byte stream of a (fake) socket, as a list of ints."""
    return list(sock.data)


def sock_pos(sock):
    """How many incoming bytes have been consumed."""
    return sock.pos


def sock_sent(sock):
    """The texts sent so far, in order."""
    return list(sock.sent)


def utf8(s):
    """UTF-8 bytes of a str as a list of ints."""
    return list(s.encode('utf-8'))


_SCHEMA_CACHE = {}


def load_schema(path_parts, pointer=()):
    """A node of a published JSON schema of the repository (with local $ref files resolved)."""
    import json
    import os
    import bridge_env
    base = os.path.join(os.path.dirname(bridge_env.__file__), *path_parts[:-1])
    key = (tuple(path_parts), tuple(pointer))
    if key in _SCHEMA_CACHE:
        return _SCHEMA_CACHE[key]

    def resolve(node, cur_file):
        if isinstance(node, dict):
            if '$ref' in node:
                ref = node['$ref']
                fname, _, ptr = ref.partition('#')
                target_file = os.path.join(base, fname) if fname else cur_file
                doc = json.load(open(target_file))
                tgt = doc
                for part in [x for x in ptr.split('/') if x]:
                    tgt = tgt[part]
                return resolve(tgt, target_file)
            return {k: resolve(v, cur_file) for k, v in node.items()}
        if isinstance(node, list):
            return [resolve(v, cur_file) for v in node]
        return node
    f = os.path.join(base, path_parts[-1])
    node = json.load(open(f))
    for part in pointer:
        node = node[part]
    node = resolve(node, f)
    _SCHEMA_CACHE[key] = node
    return node


def json_conforms(value, schema):
    """Does the JSON value conform to the (resolved) schema node?"""
    import jsonschema
    try:
        jsonschema.validate(value, schema)
        return True
    except jsonschema.ValidationError:
        return False


def json_text(v):
    """The one-line JSON text of v (json.dumps(v, indent=None))."""
    import json
    return json.dumps(v, indent=None)


def line_kind(line):
    """0 blank (only blanks, tabs, CR, LF; at least one), 1 starts with '%', 2 anything else."""
    import re
    if re.fullmatch('[ \t\r\n]+', line):
        return 0
    return 1 if line[:1] == '%' else 2


def local_assigned(frame, name):
    """Has the local `name` been assigned (in this loop iteration, for loop-carried locals)?"""
    return hasattr(frame, name)


def abstract_result(fn, *args):
    """The value the pure parser `fn` returns for these arguments (natively: call it)."""
    return fn(*args)


class DeductiveOnly(Exception):
    """The clause speaks about ghost state that only the verifier keeps (the log of calls)."""


def calls_since(iter, fn):
    """How many times `fn` (a function under contract) has been called by the verified activation
    since the start of the current loop iteration (`iter`; None: since its start).  Ghost state:
    deductive only."""
    raise DeductiveOnly('calls_since')


def call_result(iter, fn, k):
    """What the k-th (0-based) of those calls returned."""
    raise DeductiveOnly('call_result')


def call_arg(iter, fn, k, name):
    """The argument `name` of the k-th of those calls (as it was when the call was made)."""
    raise DeductiveOnly('call_arg')


def call_self_after(iter, fn, k):
    """The receiver (`self`) as the k-th of those calls left it."""
    raise DeductiveOnly('call_self_after')


def last_call_raised(iter, fn):
    """The most recent of those calls did not return (it raised)."""
    raise DeductiveOnly('last_call_raised')


def text_len(s):
    return len(s)


def char_code(s, i):
    """Code point of s[i] (0 <= i < len(s); total at spec level: -1 outside)."""
    return ord(s[i]) if 0 <= i < len(s) else -1


def is_suffix_view(a, b):
    """a is a suffix of b (for symbolic-length texts: a view of b's characters ending where b
    ends)."""
    return b.endswith(a)


def starts_with(x, lit):
    return x.startswith(lit)


def run_real(fn, *args):
    """Run the real function body (never its contract): for witness lemmas on concrete inputs."""
    return fn(*args)


def bytes_seq(b):
    """A bytes value as a list of ints."""
    return list(b)


def new_socket(data, pos):
    from .ext import FakeSocket
    return FakeSocket(bytes(data), pos)


def set_ite(c, a, b):
    """The set a if c else b, as a *value* (a fresh set: identity of a / b is not preserved)."""
    return set(a) if c else set(b)


def new_object(cls, fields):
    """An instance of cls with exactly the given attributes (no __init__ run): used by spec code to
    build a replica state directly."""
    o = object.__new__(cls)
    for k, v in fields.items():
        object.__setattr__(o, k, v)
    return o


INTRINSICS = {}
for _n, _f in list(globals().items()):
    if callable(_f) and not _n.startswith('_') and getattr(_f, '__module__', None) == __name__:
        INTRINSICS[_f] = _n

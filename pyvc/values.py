"""Symbolic value domain of the pyvc evaluator.

A *value* is either an ordinary concrete Python object (int, bool, str, None, tuple, Enum member,
class, function ...) or one of the wrappers below.  Immutable symbolic scalars derive from Sym;
mutable containers with identity derive from Mut.
"""
from __future__ import annotations

import enum
import itertools
import z3

# ------------------------------------------------------------------------------------------------
# errors


class EngineError(Exception):
    """A construct outside the supported subset / an internal limit.  Never a violation."""


class CannotMerge(Exception):
    pass


class PendingRead(EngineError):
    """A havocked trace list is read before a postcondition has defined it by an equation."""


# ------------------------------------------------------------------------------------------------
# immutable symbolic scalars


class Sym:
    __slots__ = ()

    def __deepcopy__(self, memo):
        return self


class SInt(Sym):
    __slots__ = ('t',)

    def __init__(self, t):
        self.t = t

    def __repr__(self):
        return f'SInt({self.t})'


class SBool(Sym):
    __slots__ = ('t',)

    def __init__(self, t):
        self.t = t

    def __repr__(self):
        return f'SBool({self.t})'


class SEnum(Sym):
    """Symbolic member of an Enum class; t is the Int *code* (see EnumInfo)."""
    __slots__ = ('cls', 't')

    def __init__(self, cls, t):
        self.cls = cls
        self.t = t

    def __repr__(self):
        return f'SEnum({self.cls.__name__},{self.t})'


class SOpt(Sym):
    """Optional value: None iff isnone.  inner is a value (possibly symbolic)."""
    __slots__ = ('isnone', 'inner')

    def __init__(self, isnone, inner):
        self.isnone = isnone
        self.inner = inner

    def __repr__(self):
        return f'SOpt({self.isnone},{self.inner!r})'


class SStr(Sym):
    """Symbolic string backed by an SMT String term (fallback only) or an opaque atom."""
    __slots__ = ('t',)

    def __init__(self, t):
        self.t = t

    def __repr__(self):
        return f'SStr({self.t})'


class Unbound:
    def __repr__(self):
        return '<unbound>'


UNBOUND = Unbound()


class Pending:
    """Content of a trace list between the havoc at a call site and the defining equation of the
    callee's postcondition."""

    def __repr__(self):
        return '<pending>'


PENDING = Pending()


class LoopUnknown:
    """Value of a local at the head of a loop with an invariant when the loop contract gives no
    shape for it: every iteration must assign it before reading it; a read is an engine error."""

    def __repr__(self):
        return '<loop-carried, no shape>'


LOOP_UNKNOWN = LoopUnknown()


# ------------------------------------------------------------------------------------------------
# Enum encoding


class EnumInfo:
    _cache = {}

    def __init__(self, cls):
        self.cls = cls
        self.members = list(cls)
        if all(isinstance(m.value, int) and not isinstance(m.value, bool) for m in self.members):
            self.codes = [m.value for m in self.members]
            self.by_value = True
        else:
            self.codes = list(range(len(self.members)))
            self.by_value = False
        self.by_code = dict(zip(self.codes, self.members))
        self.code_of = {m: c for m, c in zip(self.members, self.codes)}
        lo, hi = min(self.codes), max(self.codes)
        self.contiguous = sorted(self.codes) == list(range(lo, hi + 1))
        self.lo, self.hi = lo, hi

    @classmethod
    def of(cls, ecls):
        r = cls._cache.get(ecls)
        if r is None:
            r = cls._cache[ecls] = EnumInfo(ecls)
        return r

    def in_range(self, t):
        if self.contiguous:
            return z3.And(t >= self.lo, t <= self.hi)
        return z3.Or([t == c for c in self.codes])


def is_enum_cls(c):
    return isinstance(c, type) and issubclass(c, enum.Enum)


# ------------------------------------------------------------------------------------------------
# mutable containers


_ids = itertools.count(1)
ALLOC = []  # every Mut allocated on the current path (reset by the path context)


def reset_alloc():
    global ALLOC
    ALLOC = []
    return ALLOC


class Mut:
    """Mutable container with identity."""

    def __init__(self):
        self.oid = next(_ids)
        ALLOC.append(self)

    # uniform slot access used by snapshot / merge / restore
    def get_slots(self):
        raise NotImplementedError

    def set_slots(self, s):
        raise NotImplementedError


class SObj(Mut):
    """Instance of a user class (repo class or dataclass)."""

    def __init__(self, cls, fields=None, frozen=False):
        super().__init__()
        self.cls = cls
        self.fields = dict(fields or {})
        self.frozen = frozen

    def get_slots(self):
        return dict(self.fields)

    def set_slots(self, s):
        self.fields = dict(s)

    def __repr__(self):
        return f'SObj({self.cls.__name__},{self.fields})'


class SList(Mut):
    """Python list of concrete length."""

    def __init__(self, items=()):
        super().__init__()
        self.items = list(items)

    def get_slots(self):
        return list(self.items)

    def set_slots(self, s):
        self.items = list(s)

    def __repr__(self):
        return f'SList({self.items})'


class SDict(Mut):
    """Python dict with concrete (hashable) keys; insertion order kept."""

    def __init__(self, d=None):
        super().__init__()
        self.d = dict(d or {})

    def get_slots(self):
        return dict(self.d)

    def set_slots(self, s):
        self.d = dict(s)

    def __repr__(self):
        return f'SDict({self.d})'


class SCardSet(Mut):
    """Set[Card] over the 52-card universe: guards[i] <=> card with index i is a member."""

    def __init__(self, guards=None):
        super().__init__()
        self.guards = list(guards) if guards is not None else [False] * 52

    def get_slots(self):
        return list(self.guards)

    def set_slots(self, s):
        self.guards = list(s)

    def __repr__(self):
        return f'SCardSet(#{self.oid})'


class SSet(Mut):
    """Small concrete set of concrete hashable values."""

    def __init__(self, items=()):
        super().__init__()
        self.items = set(items)

    def get_slots(self):
        return set(self.items)

    def set_slots(self, s):
        self.items = set(s)


class SSeq(Mut):
    """List of symbolic length: (n, arr) with arr : Int -> Int codes of element type `elem`.

    elem is a shape descriptor with methods wrap(term)->value, unwrap(value)->term, typ(term)->Bool.
    """

    def __init__(self, n, arr, elem):
        super().__init__()
        self.n = n
        self.arr = arr
        self.elem = elem

    def get_slots(self):
        return [self.n, self.arr]

    def set_slots(self, s):
        self.n, self.arr = s

    def __repr__(self):
        return f'SSeq(n={self.n})'


class SVec(Mut):
    """numpy 1-d vector of fixed concrete length with numeric slots."""

    def __init__(self, slots, dtype=None):
        super().__init__()
        self.slots = list(slots)
        self.dtype = dtype

    def get_slots(self):
        return list(self.slots)

    def set_slots(self, s):
        self.slots = list(s)

    def __repr__(self):
        return f'SVec({len(self.slots)})'


class GList:
    """Guarded list (immutable): items = [(guard, value)], element present iff guard.
    Produced by sorted()/comprehensions over guarded sets."""

    def __init__(self, items):
        self.items = list(items)

    def __repr__(self):
        return f'GList({len(self.items)})'


class SMap:
    """[elt for x in src] over a list src of symbolic length (SSeq or another SMap): immutable,
    lazy.  at(value) evaluates the element expression for a given source element."""

    def __init__(self, src, node, frame, interp):
        self.src = src
        self.node = node
        self.frame = frame
        self.interp = interp

    def base(self):
        s = self
        while isinstance(s, SMap):
            s = s.src
        return s

    def at(self, x):
        it = self.interp
        if isinstance(self.src, SMap):
            x = self.src.at(x)
        cfr = Frame(self.frame.globals, self.frame.cls, self.frame, self.frame.name + '.<comp>')
        cfr.fdef = getattr(self.frame, 'fdef', None)
        it.assign(self.node.generators[0].target, x, cfr)
        return it.ev(self.node.elt, cfr)

    def __repr__(self):
        return 'SMap(...)'


def smap_eq(it, a, b):
    """Two lazy maps over the same base list are equal iff their element expressions agree on an
    arbitrary element of the base list's element type (sound; complete up to the element type)."""
    if isinstance(a, SSeq) and isinstance(b, SMap):
        a, b = b, a
    if isinstance(a, SMap) and isinstance(b, SSeq):
        # a lazy map against a plain list of symbolic length: the plain list is its own identity map
        ba = a.base()
        if not (ba is b or (ba.arr.eq(b.arr) and (ba.n is b.n or (isinstance(ba.n, z3.ExprRef) and
                                                                   isinstance(b.n, z3.ExprRef) and
                                                                   ba.n.eq(b.n))))):
            raise EngineError('lazy list and plain list over different base lists')
        k = it.ctx.fresh_int('elt')
        t = z3.Select(ba.arr, k)
        tc = ba.elem.typ(t)
        if tc is not None:
            it.ctx.assume_type(tc)       # elements of a typed list are well-typed
        x = ba.elem.wrap(t)
        inrange = z3.And(k >= 0, k < T(ba.n))
        body = it.eq(a.at(x), x)
        hyp = z3.And(inrange, tc) if tc is not None else inrange
        return mk_bool(z3.Implies(hyp, BT(body)))
    if not (isinstance(a, SMap) and isinstance(b, SMap)):
        # a lazy map against a concrete empty list
        other = b if isinstance(a, SMap) else a
        m = a if isinstance(a, SMap) else b
        if isinstance(other, SList) and not other.items:
            return mk_bool(T(m.base().n) == 0)
        raise EngineError('comparison of a lazy list with a non-lazy one')
    ba, bb = a.base(), b.base()
    same_base = ba is bb or (isinstance(ba.n, z3.ExprRef) and isinstance(bb.n, z3.ExprRef) and
                             ba.n.eq(bb.n) and ba.arr.eq(bb.arr)) or \
        (ba.n is bb.n and ba.arr.eq(bb.arr))
    if not same_base:
        raise EngineError('lazy lists over different base lists')
    k = it.ctx.fresh_int('elt')
    t = z3.Select(ba.arr, k)
    tc = ba.elem.typ(t)
    if tc is not None:
        it.ctx.assume_type(tc)           # elements of a typed list are well-typed
    x = ba.elem.wrap(t)
    inrange = z3.And(k >= 0, k < T(ba.n))
    body = it.eq(a.at(x), b.at(x))
    hyp = z3.And(inrange, tc) if tc is not None else inrange
    return mk_bool(z3.Implies(hyp, BT(body)))


class Frame(Mut):
    def __init__(self, fn_globals, cls=None, parent=None, name='?'):
        super().__init__()
        self.locals = {}
        self.globals = fn_globals
        self.cls = cls  # defining class (name mangling, super())
        self.parent = parent  # enclosing frame for closures
        self.name = name
        self.maybe_unbound = set()

    def get_slots(self):
        return dict(self.locals)

    def set_slots(self, s):
        self.locals = dict(s)


class BoundMethod:
    def __init__(self, fn, self_val, cls=None):
        self.fn = fn
        self.self_val = self_val
        self.cls = cls

    def __repr__(self):
        return f'BoundMethod({getattr(self.fn, "__qualname__", self.fn)})'


class Closure:
    """lambda / nested def / comprehension body evaluated by the interpreter."""

    def __init__(self, node, frame, name='<lambda>'):
        self.node = node
        self.frame = frame
        self.name = name


class SuperProxy:
    def __init__(self, cls, self_val):
        self.cls = cls
        self.self_val = self_val


# ------------------------------------------------------------------------------------------------
# term helpers


def is_bool_like(v):
    return isinstance(v, (bool, SBool))


def is_int_like(v):
    return (isinstance(v, int) and not isinstance(v, bool)) or isinstance(v, SInt)


def is_enum_like(v):
    return isinstance(v, (enum.Enum, SEnum))


def enum_cls_of(v):
    return v.cls if isinstance(v, SEnum) else type(v)


def is_concrete_scalar(v):
    return v is None or isinstance(v, (bool, int, float, str, bytes, enum.Enum))


def T(v):
    """z3 term of an int / bool / enum-like value."""
    if isinstance(v, (SInt, SBool, SEnum, SStr)):
        return v.t
    if isinstance(v, bool):
        return z3.BoolVal(v)
    if isinstance(v, int):
        return z3.IntVal(v)
    if isinstance(v, float) and v == int(v):
        return z3.IntVal(int(v))
    if isinstance(v, enum.Enum):
        return z3.IntVal(EnumInfo.of(type(v)).code_of[v])
    if isinstance(v, str):
        return z3.StringVal(v)
    if isinstance(v, (z3.ExprRef,)):
        return v
    raise EngineError(f'no SMT term for {v!r}')


def BT(v):
    """Bool term of python bool / SBool / z3 Bool."""
    if isinstance(v, bool):
        return z3.BoolVal(v)
    if isinstance(v, SBool):
        return v.t
    if isinstance(v, z3.BoolRef):
        return v
    raise EngineError(f'not a boolean: {v!r}')


def mk_bool(t):
    """Normalise a z3 Bool term into python bool when decided syntactically."""
    if isinstance(t, bool):
        return t
    t = z3.simplify(t)
    if z3.is_true(t):
        return True
    if z3.is_false(t):
        return False
    return SBool(t)


def mk_int(t):
    if isinstance(t, int):
        return t
    t = z3.simplify(t)
    if z3.is_int_value(t):
        return t.as_long()
    return SInt(t)


def mk_enum(cls, t):
    t = z3.simplify(t) if not isinstance(t, int) else z3.IntVal(t)
    if z3.is_int_value(t):
        info = EnumInfo.of(cls)
        c = t.as_long()
        if c in info.by_code:
            return info.by_code[c]
        raise EngineError(f'code {c} is not a member of {cls.__name__}')
    return SEnum(cls, t)


def mk_opt(isnone, inner):
    if isinstance(isnone, SBool):
        isnone = isnone.t
    if not isinstance(isnone, bool):
        isnone = z3.simplify(isnone)
        if z3.is_true(isnone):
            isnone = True
        elif z3.is_false(isnone):
            isnone = False
    if isnone is True:
        return None
    if isnone is False:
        return inner
    if isinstance(inner, SOpt):
        return SOpt(z3.Or(isnone, inner.isnone), inner.inner)
    return SOpt(isnone, inner)


def b_and(*xs):
    ts = []
    for x in xs:
        if x is True:
            continue
        if x is False:
            return False
        ts.append(BT(x))
    if not ts:
        return True
    return mk_bool(z3.And(ts)) if len(ts) > 1 else mk_bool(ts[0])


def b_or(*xs):
    ts = []
    for x in xs:
        if x is False:
            continue
        if x is True:
            return True
        ts.append(BT(x))
    if not ts:
        return False
    return mk_bool(z3.Or(ts)) if len(ts) > 1 else mk_bool(ts[0])


def b_not(x):
    if isinstance(x, bool):
        return not x
    return mk_bool(z3.Not(BT(x)))


def b_implies(a, b):
    return b_or(b_not(a), b)


def b_ite(c, a, b):
    if c is True:
        return a
    if c is False:
        return b
    return mk_bool(z3.If(BT(c), BT(a), BT(b)))


# ------------------------------------------------------------------------------------------------
# Card helpers (the only hashable user type placed in sets)

_card_cls = None
_suit_cls = None


def set_card_classes(card_cls, suit_cls):
    global _card_cls, _suit_cls
    _card_cls, _suit_cls = card_cls, suit_cls


def card_cls():
    return _card_cls


def is_card(v):
    if _card_cls is None:
        return False
    if isinstance(v, _card_cls):
        return True
    return isinstance(v, SObj) and v.cls is _card_cls


def card_fields(v):
    """(rank value, suit value) of a real Card or an SObj Card."""
    if isinstance(v, SObj):
        return v.fields['rank'], v.fields['suit']
    return v.rank, v.suit


def card_index(v):
    """Index 13*(suit-1)+rank-2 as python int or z3 term."""
    r, s = card_fields(v)
    if isinstance(r, int) and isinstance(s, enum.Enum):
        return (s.value - 1) * 13 + r - 2
    return z3.simplify((T(s) - 1) * 13 + T(r) - 2)


def concrete_card(i):
    return _card_cls(i % 13 + 2, _suit_cls(i // 13 + 1))


def mk_card(rank, suit):
    """Card value from rank/suit values (no validation)."""
    if isinstance(rank, int) and isinstance(suit, enum.Enum):
        o = object.__new__(_card_cls)
        object.__setattr__(o, 'rank', rank)
        object.__setattr__(o, 'suit', suit)
        return o
    return SObj(_card_cls, {'rank': rank, 'suit': suit}, frozen=True)


# ------------------------------------------------------------------------------------------------
# merge


def _split_opt(v):
    if v is None:
        return True, None
    if isinstance(v, SOpt):
        return v.isnone, v.inner
    return False, v


def merge(c, a, b):
    """Value equal to a when c else b.  c is a z3 Bool term."""
    if a is b:
        return a
    if isinstance(a, Unbound) or isinstance(b, Unbound):
        raise CannotMerge('unbound')
    if is_concrete_scalar(a) and is_concrete_scalar(b) and type(a) is type(b) and a == b:
        return a
    if a is None or b is None or isinstance(a, SOpt) or isinstance(b, SOpt):
        ia, va = _split_opt(a)
        ib, vb = _split_opt(b)
        if va is None:
            inner = vb
        elif vb is None:
            inner = va
        else:
            inner = merge(c, va, vb)
        isn = z3.If(c, BT(ia), BT(ib))
        return mk_opt(isn, inner)
    if is_bool_like(a) and is_bool_like(b):
        return mk_bool(z3.If(c, BT(a), BT(b)))
    if is_int_like(a) and is_int_like(b):
        return mk_int(z3.If(c, T(a), T(b)))
    if isinstance(a, float) and is_int_like(b) or isinstance(b, float) and is_int_like(a) or \
            (isinstance(a, float) and isinstance(b, float)):
        return mk_int(z3.If(c, T(a), T(b)))
    if is_enum_like(a) and is_enum_like(b) and enum_cls_of(a) is enum_cls_of(b):
        return mk_enum(enum_cls_of(a), z3.If(c, T(a), T(b)))
    if isinstance(a, tuple) and isinstance(b, tuple) and len(a) == len(b):
        return tuple(merge(c, x, y) for x, y in zip(a, b))
    if is_card(a) and is_card(b):
        ra, sa = card_fields(a)
        rb, sb = card_fields(b)
        return mk_card(merge(c, ra, rb), merge(c, sa, sb))
    if isinstance(a, SObj) and isinstance(b, SObj) and a.frozen and b.frozen and a.cls is b.cls:
        return SObj(a.cls, {k: merge(c, a.fields[k], b.fields[k]) for k in a.fields}, frozen=True)
    if isinstance(a, GList) and isinstance(b, GList) and len(a.items) == len(b.items):
        return GList([(b_ite(c, ga, gb) if (ga is not gb) else ga, merge(c, va, vb))
                      for (ga, va), (gb, vb) in zip(a.items, b.items)])
    from .strings import XStr, str_merge
    if isinstance(a, (str, XStr)) and isinstance(b, (str, XStr)):
        def simple(x):
            return isinstance(x, str) or x.alts is not None or \
                all(isinstance(p, str) for _, p in x.segs) or len(x.segs) == 1
        if not (simple(a) and simple(b)):
            # texts with unknown parts are not merged into one guarded text (the regex matcher
            # could not work on it): the exploration forks instead
            raise CannotMerge('structured strings')
        return str_merge(c, a, b)
    from . import ext as _ext
    if isinstance(a, _ext.SCharSeq) and isinstance(b, _ext.SCharSeq):
        return _ext.SCharSeq(z3.If(c, a.arr, b.arr), z3.If(c, T(a.off), T(b.off)),
                             z3.If(c, T(a.n), T(b.n)))
    if isinstance(a, _ext.SByte1) and isinstance(b, _ext.SByte1):
        return _ext.SByte1(merge(c, a.nonempty, b.nonempty), merge(c, a.code, b.code))
    if isinstance(a, (_ext.SBytes, bytes)) and isinstance(b, (_ext.SBytes, bytes)):
        def sb(x):
            if isinstance(x, bytes):
                arr = z3.K(z3.IntSort(), z3.IntVal(0))
                for i, v in enumerate(x):
                    arr = z3.Store(arr, i, v)
                return _ext.SBytes(z3.IntVal(len(x)), arr)
            return x
        a, b = sb(a), sb(b)
        return _ext.SBytes(z3.If(c, a.n, b.n), z3.If(c, a.arr, b.arr))
    raise CannotMerge(f'{type(a).__name__} / {type(b).__name__}')


# ------------------------------------------------------------------------------------------------
# snapshot / restore of the mutable object graph


def _walk_children(v):
    if isinstance(v, SObj):
        return v.fields.values()
    if type(v).__name__ == 'SExt':
        return v.fields.values()
    if isinstance(v, SList):
        return v.items
    if isinstance(v, SDict):
        return v.d.values()
    if isinstance(v, Frame):
        ch = list(v.locals.values())
        if v.parent is not None:
            ch.append(v.parent)
        return ch
    if isinstance(v, tuple):
        return v
    if isinstance(v, SOpt):
        return (v.inner,)
    if isinstance(v, BoundMethod):
        return (v.self_val,)
    if isinstance(v, Closure):
        return (v.frame,)
    if isinstance(v, GList):
        return [x for _, x in v.items]
    return ()


def reachable_muts(roots):
    seen = {}
    stack = list(roots)
    visited = set()
    while stack:
        v = stack.pop()
        if isinstance(v, Mut):
            if v.oid in seen:
                continue
            seen[v.oid] = v
        elif isinstance(v, (tuple, SOpt, BoundMethod, Closure, GList)):
            if id(v) in visited:
                continue
            visited.add(id(v))
        else:
            continue
        stack.extend(_walk_children(v))
    return seen


class Snapshot:
    """Slot contents of every mutable object allocated on this path, at a point in time."""

    def __init__(self, roots=None):
        if roots is None:
            self.muts = {m.oid: m for m in ALLOC}
        else:
            self.muts = reachable_muts(roots)
        self.saved = {oid: m.get_slots() for oid, m in self.muts.items()}

    def restore(self):
        for oid, m in self.muts.items():
            m.set_slots(self.saved[oid])


def clone_value(v, memo):
    """Deep copy of the mutable graph (identity-preserving through memo); Sym values shared."""
    if isinstance(v, Mut):
        r = memo.get(v.oid)
        if r is not None:
            return r
        if isinstance(v, SObj):
            r = SObj(v.cls, frozen=v.frozen)
            memo[v.oid] = r
            r.fields = {k: clone_value(x, memo) for k, x in v.fields.items()}
        elif isinstance(v, SList):
            r = SList()
            memo[v.oid] = r
            r.items = [clone_value(x, memo) for x in v.items]
        elif isinstance(v, SDict):
            r = SDict()
            memo[v.oid] = r
            r.d = {k: clone_value(x, memo) for k, x in v.d.items()}
        elif isinstance(v, SCardSet):
            r = SCardSet(v.guards)
            memo[v.oid] = r
        elif isinstance(v, SSet):
            r = SSet(v.items)
            memo[v.oid] = r
        elif isinstance(v, SSeq):
            r = SSeq(v.n, v.arr, v.elem)
            memo[v.oid] = r
        elif isinstance(v, SVec):
            r = SVec(v.slots, v.dtype)
            memo[v.oid] = r
        elif isinstance(v, Frame):
            r = Frame(v.globals, v.cls, None, v.name)
            memo[v.oid] = r
            r.parent = clone_value(v.parent, memo) if v.parent is not None else None
            r.locals = {k: clone_value(x, memo) for k, x in v.locals.items()}
        else:
            c = getattr(v, 'clone', None)
            if c is None:
                raise EngineError(f'cannot clone {type(v).__name__}')
            r = c(memo)
        return r
    if isinstance(v, tuple):
        return tuple(clone_value(x, memo) for x in v)
    if isinstance(v, SOpt):
        return SOpt(v.isnone, clone_value(v.inner, memo))
    if isinstance(v, BoundMethod):
        return BoundMethod(v.fn, clone_value(v.self_val, memo), v.cls)
    if isinstance(v, GList):
        return GList([(g, clone_value(x, memo)) for g, x in v.items])
    return v

"""Contract DSL: shapes of symbolic inputs, function / class / lemma contracts, the registry."""
from __future__ import annotations

import enum
import importlib
import inspect

import z3

from . import values as V
from .values import (EngineError, EnumInfo, SCardSet, SDict, SEnum, SInt, SList, SObj, SOpt, SSeq,
                     SVec, mk_bool, mk_card, mk_enum, mk_int, mk_opt)

# ------------------------------------------------------------------------------------------------
# shapes


class Shape:
    def fresh(self, ctx, name):
        raise NotImplementedError

    def havoc(self, ctx, obj, name):
        """Replace the contents of the existing mutable object `obj` by fresh ones (in place)."""
        raise EngineError(f'{type(self).__name__} cannot be havocked in place')


class Int(Shape):
    def __init__(self, lo=None, hi=None):
        self.lo, self.hi = lo, hi

    def sample(self, rng):
        lo = self.lo if self.lo is not None else -(10 ** rng.choice([1, 2, 4, 6]))
        hi = self.hi if self.hi is not None else 10 ** rng.choice([1, 2, 4, 6])
        return rng.randint(lo, hi)

    def fresh(self, ctx, name):
        t = ctx.fresh_int(name)
        if self.lo is not None:
            ctx.assume_type(t >= self.lo)
        if self.hi is not None:
            ctx.assume_type(t <= self.hi)
        return SInt(t)


class Bool(Shape):
    def sample(self, rng):
        return rng.random() < 0.5

    def fresh(self, ctx, name):
        from .values import SBool
        return SBool(ctx.fresh_bool(name))


class Enum(Shape):
    def __init__(self, cls, only=None):
        self.cls = cls
        self.only = only

    def sample(self, rng):
        return rng.choice(list(self.only or self.cls))

    def fresh(self, ctx, name):
        t = ctx.fresh_int(name)
        info = EnumInfo.of(self.cls)
        if self.only is not None:
            ctx.assume_type(z3.Or([t == info.code_of[m] for m in self.only]))
        else:
            ctx.assume_type(info.in_range(t))
        return SEnum(self.cls, t)


class Opt(Shape):
    def __init__(self, inner):
        self.inner = inner

    def sample(self, rng):
        return None if rng.random() < 0.3 else self.inner.sample(rng)

    def fresh(self, ctx, name):
        isn = ctx.fresh_bool(name + '_isnone')
        return SOpt(isn, self.inner.fresh(ctx, name))


class Const(Shape):
    def __init__(self, v):
        self.v = v

    def sample(self, rng):
        return self.v

    def fresh(self, ctx, name):
        return self.v


class OneOf(Shape):
    """One of finitely many concrete values (the exploration forks over them)."""

    def __init__(self, values):
        self.values = list(values)

    def sample(self, rng):
        return rng.choice(self.values)

    def fresh(self, ctx, name):
        k = ctx.fresh_int(name + '_choice')
        ctx.assume_type(z3.And(k >= 0, k < len(self.values)))
        i = ctx.decide_among(k, list(range(len(self.values))))
        return self.values[i]


class Card(Shape):
    def sample(self, rng):
        return V.concrete_card(rng.randrange(52))

    def fresh(self, ctx, name):
        r = ctx.fresh_int(name + '_rank')
        s = ctx.fresh_int(name + '_suit')
        ctx.assume_type(z3.And(r >= 2, r <= 14, s >= 1, s <= 4))
        return mk_card(SInt(r), SEnum(_suit_cls(), s))


def _suit_cls():
    return V._suit_cls


class CardSet(Shape):
    def sample(self, rng):
        k = rng.choice([0, 1, 5, 13, 13, 13, 26, 52])
        picks = set(rng.sample(range(52), k))
        return SCardSet([i in picks for i in range(52)])

    def fresh(self, ctx, name):
        return SCardSet([mk_bool(ctx.fresh_bool(f'{name}_{i}')) for i in range(52)])

    def havoc(self, ctx, obj, name):
        obj.guards = [mk_bool(ctx.fresh_bool(f'{name}_{i}')) for i in range(52)]


class EnumElem:
    def __init__(self, cls):
        self.cls = cls
        self.info = EnumInfo.of(cls)

    def wrap(self, t):
        return mk_enum(self.cls, t)

    def unwrap(self, v):
        if not V.is_enum_like(v) or V.enum_cls_of(v) is not self.cls:
            raise EngineError(f'list element {v!r} is not a {self.cls.__name__}')
        return V.T(v)

    def typ(self, t):
        return self.info.in_range(t)

    def default(self):
        return self.info.members[0]


class IntElem:
    def wrap(self, t):
        return mk_int(t)

    def unwrap(self, v):
        return V.T(v)

    def typ(self, t):
        return None


class CardElem:
    """Cards stored in sequences as their index 0..51."""

    def wrap(self, t):
        t = z3.simplify(t)
        if z3.is_int_value(t):
            return V.concrete_card(t.as_long())
        return mk_card(mk_int(t % 13 + 2), mk_enum(_suit_cls(), t / 13 + 1))

    def unwrap(self, v):
        return V.T(V.card_index(v)) if not isinstance(V.card_index(v), int) \
            else z3.IntVal(V.card_index(v))

    def typ(self, t):
        return z3.And(t >= 0, t <= 51)

    def default(self):
        return V.concrete_card(0)


def elem_sort(elem):
    st = getattr(elem, 'sort', None)
    return st if st is not None else z3.IntSort()


class RecordElem:
    """Sequence element that is a frozen record (dataclass / NamedTuple) of scalar fields, stored
    as a z3 datatype.  fields: list of (name, scalar elem | ('tuple', [scalar elems]))."""

    _cache = {}

    def __init__(self, cls, fields):
        self.cls = cls
        self.fields = fields
        key = (cls, tuple((n, repr(type(e))) for n, e in fields))
        hit = RecordElem._cache.get(cls)
        if hit is None:
            dt = z3.Datatype('R_' + cls.__name__)
            flat = []
            for n, e in fields:
                if isinstance(e, tuple):
                    for i, _ in enumerate(e[1]):
                        flat.append((f'{n}_{i}', z3.IntSort()))
                else:
                    flat.append((n, z3.IntSort()))
            dt.declare('mk', *flat)
            dt = dt.create()
            hit = RecordElem._cache[cls] = dt
        self.sort = hit

    def _parts(self):
        out = []
        k = 0
        for n, e in self.fields:
            if isinstance(e, tuple):
                out.append((n, [(k + i, x) for i, x in enumerate(e[1])], True))
                k += len(e[1])
            else:
                out.append((n, [(k, e)], False))
                k += 1
        return out

    def wrap(self, t):
        vals = {}
        for n, comps, is_tuple in self._parts():
            xs = [e.wrap(z3.simplify(self.sort.accessor(0, i)(t))) for i, e in comps]
            vals[n] = tuple(xs) if is_tuple else xs[0]
        return SObj(self.cls, vals, frozen=True)

    def unwrap(self, v):
        args = []
        for n, comps, is_tuple in self._parts():
            x = v.fields[n] if isinstance(v, SObj) else getattr(v, n)
            xs = list(x) if is_tuple else [x]
            if len(xs) != len(comps):
                raise EngineError(f'record field {n}: expected {len(comps)} components')
            for (i, e), y in zip(comps, xs):
                args.append(e.unwrap(y))
        return self.sort.constructor(0)(*args)

    def sample(self, rng):
        vals = {}
        for n, comps, is_tuple in self._parts():
            xs = []
            for _, e in comps:
                if isinstance(e, EnumElem):
                    xs.append(rng.choice(list(e.cls)))
                elif isinstance(e, CardElem):
                    xs.append(V.concrete_card(rng.randrange(52)))
                else:
                    xs.append(rng.randint(0, 5))
            vals[n] = tuple(xs) if is_tuple else xs[0]
        return SObj(self.cls, vals, frozen=True)

    def default(self):
        vals = {}
        for n, comps, is_tuple in self._parts():
            xs = [e.default() if hasattr(e, 'default') else 0 for _, e in comps]
            vals[n] = tuple(xs) if is_tuple else xs[0]
        return SObj(self.cls, vals, frozen=True)

    def typ(self, t):
        cs = []
        for n, comps, _ in self._parts():
            for i, e in comps:
                c = e.typ(self.sort.accessor(0, i)(t))
                if c is not None:
                    cs.append(c)
        return z3.And(cs) if cs else None


class ListUpTo(Shape):
    """Python list of 0..maxlen items of one shape; the exploration forks over the length, so the
    list has a concrete length on every path."""

    def __init__(self, item, maxlen):
        self.item = item
        self.maxlen = maxlen

    def sample(self, rng):
        return SList([self.item.sample(rng) for _ in range(rng.randint(0, self.maxlen))])

    def fresh(self, ctx, name):
        k = ctx.fresh_int(name + '_len')
        ctx.assume_type(z3.And(k >= 0, k <= self.maxlen))
        n = ctx.decide_among(k, list(range(self.maxlen + 1)))
        return SList([self.item.fresh(ctx, f'{name}_{i}') for i in range(n)])

    def havoc(self, ctx, obj, name):
        k = ctx.fresh_int(name + '_len')
        ctx.assume_type(z3.And(k >= 0, k <= self.maxlen))
        n = ctx.decide_among(k, list(range(self.maxlen + 1)))
        obj.items = [self.item.fresh(ctx, f'{name}_{i}') for i in range(n)]


class Seq(Shape):
    """List of symbolic length with scalar elements."""

    def __init__(self, elem, maxlen=None):
        self.elem = elem
        self.maxlen = maxlen

    def sample(self, rng):
        n = rng.randint(0, min(self.maxlen or 12, 12))
        if isinstance(self.elem, EnumElem):
            return SList([rng.choice(list(self.elem.cls)) for _ in range(n)])
        if isinstance(self.elem, CardElem):
            return SList([V.concrete_card(rng.randrange(52)) for _ in range(n)])
        if isinstance(self.elem, RecordElem):
            return SList([self.elem.sample(rng) for _ in range(n)])
        if type(self.elem).__name__ == 'LineElem':
            pool = [' \n', '\n', '\t\r\n', '% PBN 2.1\n', '% note\n', '[Event "x"]\n',
                    '[Board "7"]\n', 'S A K 3\n', '[Deal "N:- - - -"]\r\n']
            return SList([rng.choice(pool) for _ in range(rng.randint(0, 9))])
        return SList([rng.randint(-5, 5) for _ in range(n)])

    def fresh(self, ctx, name):
        n = ctx.fresh_int(name + '_len')
        ctx.assume_type(n >= 0)
        if self.maxlen is not None:
            ctx.assume_type(n <= self.maxlen)
        arr = z3.Array(ctx.fresh_name(name + '_arr'), z3.IntSort(), elem_sort(self.elem))
        return SSeq(n, arr, self.elem)

    def havoc(self, ctx, obj, name):
        n = ctx.fresh_int(name + '_len')
        ctx.assume_type(n >= 0)
        obj.n = n
        obj.arr = z3.Array(ctx.fresh_name(name + '_arr'), z3.IntSort(), elem_sort(self.elem))


class Vec(Shape):
    def __init__(self, n, lo=None, hi=None):
        self.n, self.lo, self.hi = n, lo, hi

    def sample(self, rng):
        lo = self.lo if self.lo is not None else -3
        hi = self.hi if self.hi is not None else 3
        return SVec([rng.randint(lo, hi) for _ in range(self.n)])

    def _slots(self, ctx, name):
        out = []
        for i in range(self.n):
            t = ctx.fresh_int(f'{name}_{i}')
            if self.lo is not None:
                ctx.assume_type(t >= self.lo)
            if self.hi is not None:
                ctx.assume_type(t <= self.hi)
            out.append(SInt(t))
        return out

    def fresh(self, ctx, name):
        return SVec(self._slots(ctx, name))

    def havoc(self, ctx, obj, name):
        obj.slots = self._slots(ctx, name)


class Tuple(Shape):
    def __init__(self, *items):
        self.items = items

    def sample(self, rng):
        return tuple(s.sample(rng) for s in self.items)

    def fresh(self, ctx, name):
        return tuple(s.fresh(ctx, f'{name}_{i}') for i, s in enumerate(self.items))


class List(Shape):
    def __init__(self, *items):
        self.items = items

    def sample(self, rng):
        return SList([s.sample(rng) for s in self.items])

    def fresh(self, ctx, name):
        return SList([s.fresh(ctx, f'{name}_{i}') for i, s in enumerate(self.items)])

    def havoc(self, ctx, obj, name):
        obj.items = [s.fresh(ctx, f'{name}_{i}') for i, s in enumerate(self.items)]


class Dict(Shape):
    def __init__(self, d):
        self.d = d

    def sample(self, rng):
        return SDict({k: s.sample(rng) for k, s in self.d.items()})

    @staticmethod
    def _kn(k):
        return k.name if isinstance(k, enum.Enum) else str(k)

    def fresh(self, ctx, name):
        return SDict({k: s.fresh(ctx, f'{name}_{self._kn(k)}') for k, s in self.d.items()})

    def havoc(self, ctx, obj, name):
        for k, s in self.d.items():
            cur = obj.d.get(k)
            if isinstance(cur, V.Mut) and not isinstance(s, (Opt, OneOf, Const)):
                s.havoc(ctx, cur, f'{name}_{self._kn(k)}')
            else:
                obj.d[k] = s.fresh(ctx, f'{name}_{self._kn(k)}')


class Alias(Shape):
    """Field that holds the SAME object as another field of the enclosing object."""

    def __init__(self, other):
        self.other = other


class Obj(Shape):
    def __init__(self, cls, fields, frozen=False):
        self.cls = cls
        self.fields = fields
        self.frozen = frozen

    def sample(self, rng):
        o = SObj(self.cls, {k: s.sample(rng) for k, s in self.fields.items()
                            if not isinstance(s, Alias)}, frozen=self.frozen)
        for k, s in self.fields.items():
            if isinstance(s, Alias):
                o.fields[k] = o.fields[s.other]
        return o

    def fresh(self, ctx, name):
        o = SObj(self.cls, {k: s.fresh(ctx, f'{name}.{k}') for k, s in self.fields.items()
                            if not isinstance(s, Alias)}, frozen=self.frozen)
        for k, s in self.fields.items():
            if isinstance(s, Alias):
                o.fields[k] = o.fields[s.other]
        o.aliases = {k for k, s in self.fields.items() if isinstance(s, Alias)}
        return o

    def havoc(self, ctx, obj, name):
        for k, s in self.fields.items():
            if isinstance(s, Alias):
                continue
            cur = obj.fields.get(k)
            if isinstance(cur, V.Mut) and not (isinstance(cur, SObj) and cur.frozen) and \
                    not isinstance(s, (Opt, OneOf, Const)):
                s.havoc(ctx, cur, f'{name}.{k}')
            else:
                obj.fields[k] = s.fresh(ctx, f'{name}.{k}')


class OpaqueVal(Shape):
    """A value about which nothing is known except its identity (e.g. a parsed game)."""

    class Val(V.Sym):
        __slots__ = ('name',)

        def __init__(self, name):
            self.name = name

        def __repr__(self):
            return f'<{self.name}>'

    def __init__(self, kind='value'):
        self.kind = kind

    def sample(self, rng):
        return {'opaque': rng.random()}

    def fresh(self, ctx, name):
        return OpaqueVal.Val(ctx.fresh_name(self.kind))


class Text(Shape):
    """An arbitrary text value (name, id, message): an opaque atom; excl = characters it cannot
    contain."""

    def __init__(self, excl='', samples=None):
        self.excl = excl
        self.samples = samples or ['', 'a', 'Team A', 'x  y', '12', 'ü']

    def sample(self, rng):
        return rng.choice(self.samples)

    def fresh(self, ctx, name):
        from .strings import XStr
        return XStr.atom(ctx.fresh_name(name), excl=self.excl)


class AltText(Shape):
    """One of finitely many literal texts, symbolically (no fork): a string with alternatives."""

    def __init__(self, texts):
        self.texts = list(texts)

    def sample(self, rng):
        return rng.choice(self.texts)

    def fresh(self, ctx, name):
        from .strings import XStr, str_merge
        k = ctx.fresh_int(name + '_alt')
        ctx.assume_type(z3.And(k >= 0, k < len(self.texts)))
        r = self.texts[-1]
        for i in range(len(self.texts) - 2, -1, -1):
            r = str_merge(k == i, self.texts[i], r)
        return r


class Ext(Shape):
    """External object (socket ...) with ghost fields."""

    def __init__(self, kind, fields):
        self.kind = kind
        self.fields = fields

    def sample(self, rng):
        from .ext import SExt
        return SExt(self.kind, {k: s.sample(rng) for k, s in self.fields.items()})

    def fresh(self, ctx, name):
        from .ext import SExt
        return SExt(self.kind, {k: s.fresh(ctx, f'{name}.{k}') for k, s in self.fields.items()})

    def havoc(self, ctx, obj, name):
        for k, s in self.fields.items():
            cur = obj.fields.get(k)
            if isinstance(cur, V.Mut) and not isinstance(s, (Opt, OneOf, Const)):
                s.havoc(ctx, cur, f'{name}.{k}')
            else:
                obj.fields[k] = s.fresh(ctx, f'{name}.{k}')


class Byte1(Shape):
    def sample(self, rng):
        return bytes([rng.randrange(256)]) if rng.random() < 0.8 else b''

    def fresh(self, ctx, name):
        from .ext import SByte1
        c = ctx.fresh_int(name + '_code')
        ctx.assume_type(z3.And(c >= 0, c <= 255))
        return SByte1(mk_bool(ctx.fresh_bool(name + '_nonempty')), SInt(c))


class Bytes(Shape):
    def sample(self, rng):
        return bytes(rng.randrange(256) for _ in range(rng.randint(0, 6)))

    def fresh(self, ctx, name):
        from .ext import SBytes
        n = ctx.fresh_int(name + '_len')
        ctx.assume_type(n >= 0)
        return SBytes(n, z3.Array(ctx.fresh_name(name + '_arr'), z3.IntSort(), z3.IntSort()))


class DecodedStr(Shape):
    """A str known only through its UTF-8 bytes."""

    def sample(self, rng):
        return ''.join(rng.choice('abc \r\nxyz') for _ in range(rng.randint(0, 5)))

    def fresh(self, ctx, name):
        from .ext import SDecoded
        return SDecoded(Bytes().fresh(ctx, name))


class CharSeq(Shape):
    """A text of arbitrary (symbolic) length, character by character."""

    def __init__(self, minlen=0):
        self.minlen = minlen

    def sample(self, rng):
        n = rng.choice([1, 2, 10, 253, 254, 255, 256, 300, 508, 509, 600])
        t = ''.join(rng.choice('ab []"x') for _ in range(n - 1))
        return t + rng.choice(['\n', 'z'])

    def fresh(self, ctx, name):
        from .ext import SCharSeq
        n = ctx.fresh_int(name + '_len')
        ctx.assume_type(n >= self.minlen)
        arr = z3.Array(ctx.fresh_name(name + '_chars'), z3.IntSort(), z3.IntSort())
        return SCharSeq(arr, z3.IntVal(0), n)


class TraceList(Shape):
    """Output trace (chunks written, messages sent ...): the list of what has been appended since
    the enclosing havoc point.  Contracts state appended deltas (new == old + [...]), so resetting
    the trace to [] when it is havocked loses nothing."""

    def sample(self, rng):
        return SList([])

    def fresh(self, ctx, name):
        return SList([])

    def havoc(self, ctx, obj, name):
        # at a call site: the callee's postcondition defines the new trace by an equation
        # (new == old + [...]); until then the list is "pending" and must not be read
        if isinstance(obj, V.SSeq):
            # the caller holds the list as a sequence of symbolic length: havoc it as one
            n = ctx.fresh_int(name + '_len')
            ctx.assume_type(n >= 0)
            obj.n = n
            obj.arr = z3.Array(ctx.fresh_name(name + '_arr'), z3.IntSort(), obj.arr.sort().range())
            return
        if not isinstance(obj, SList):
            raise EngineError(f'a trace list is havocked but the caller holds a {type(obj).__name__}')
        obj.items = [V.PENDING]


class TraceReset(Shape):
    """Loop-level havoc of a trace: restart it at [] (the trace then holds what one iteration
    appends)."""

    def sample(self, rng):
        return SList([])

    def fresh(self, ctx, name):
        return SList([])

    def havoc(self, ctx, obj, name):
        obj.items = []


EARLIER = '<items of earlier iterations>'


class TracePrefix(Shape):
    """Loop-level havoc of a list the loop builds: [<items of earlier iterations>] -- one opaque
    marker standing for whatever the earlier iterations have put there.  A per-iteration clause
    `outputs == iter.outputs + [x]` then says that x is put BEHIND everything that was there (an
    insertion in front, a replacement of the list, or a dropped prefix does not satisfy it),
    which TraceReset cannot express.  The length of such a list is unknown to the evaluator
    (asking for it is an engine error, never a guess)."""

    def sample(self, rng):
        return SList([])

    def fresh(self, ctx, name):
        return SList([OpaqueVal.Val(EARLIER)])

    def havoc(self, ctx, obj, name):
        obj.items = [OpaqueVal.Val(EARLIER)]


class EmptyList(Shape):
    def sample(self, rng):
        return SList([])

    def fresh(self, ctx, name):
        return SList([])

    def havoc(self, ctx, obj, name):
        raise EngineError('a trace list cannot be havocked')


class Ref(Shape):
    """Shape of a class registered with a class contract (resolved lazily)."""

    def __init__(self, cls_qualname):
        self.q = cls_qualname

    def _s(self):
        return REGISTRY.classes_by_name[self.q].shape

    def sample(self, rng):
        return self._s().sample(rng)

    def fresh(self, ctx, name):
        return self._s().fresh(ctx, name)

    def havoc(self, ctx, obj, name):
        return self._s().havoc(ctx, obj, name)


# ------------------------------------------------------------------------------------------------
# contracts


class LoopContract:
    def __init__(self, invariant=None, variant=None, unroll=None, havoc=None, havoc_heap=None,
                 entry_snapshot=False, body_ensures=None, never_iterates=False,
                 exit_snapshot=False):
        # keep a copy of the locals (and what they reach) as they are when the loop is left:
        # postconditions read it as frame.__after_loop<k>__
        self.exit_snapshot = exit_snapshot
        self.body_ensures = body_ensures or {}
        # the invariant excludes the loop condition on the verified domain (e.g. lines that fit):
        # the vacuity guard "body verified at least once" does not apply
        self.never_iterates = never_iterates
        self.invariant = invariant
        self.variant = variant
        self.unroll = unroll
        self.havoc = havoc or {}
        self.havoc_heap = havoc_heap or {}
        self.entry_snapshot = entry_snapshot


class FnContract:
    def __init__(self, qualname, fn, spec_cls, props, mode):
        self.qualname = qualname
        self.fn = fn
        self.props = props
        self.mode = mode
        self.spec_cls = spec_cls
        d = spec_cls.__dict__ if spec_cls is not None else {}
        self.params = dict(d.get('params', {}))
        self.returns = d.get('returns')
        self.requires = [(k[len('requires_'):], _plain(v)) for k, v in d.items()
                         if k.startswith('requires_')]
        self.ensures = [(k[len('ensures_'):], _plain(v)) for k, v in d.items()
                        if k.startswith('ensures_')]
        self.exc_ensures = [(k[len('excensures_'):], _plain(v)) for k, v in d.items()
                            if k.startswith('excensures_')]
        # native_ensures_<name> = (obligation name it replays, predicate): checked only when the real
        # function is run natively (replay / bounded stand-in); the symbolic counterpart is a loop
        # body_ensures, which cannot be evaluated on a concrete run
        self.native_ensures = [(k[len('native_ensures_'):], v[0], _plain(v[1])) for k, v in d.items()
                               if k.startswith('native_ensures_')]
        # native_excensures_<name>: the same for an exceptional postcondition (the predicate may
        # take `exc_value`, the exception instance)
        self.native_exc_ensures = [(k[len('native_excensures_'):], v[0], _plain(v[1]))
                                   for k, v in d.items() if k.startswith('native_excensures_')]
        self.raises = {}
        for exc, kind in d.get('raises', {}).items():
            cfn = d.get('raises_' + exc.__name__)
            self.raises[exc] = (kind, _plain(cfn) if cfn is not None else None)
        self.result_fn = _plain(d['result']) if 'result' in d else None
        self.modifies = list(d.get('modifies', []))
        # functional = pure: the call is replaced by the spec expression, nothing is havocked
        self.functional = self.result_fn is not None and not self.modifies
        self.loops = dict(d.get('loops', {}))
        self.is_init = fn.__name__ == '__init__'
        self.skip_inv_at_call = d.get('skip_inv_at_call', False)
        self.exc_havoc = d.get('exc_havoc', False)
        self.raises_need_old = d.get('raises_need_old', False)
        self.verify = d.get('verify', mode == 'contract')
        self.covers = [(k[len('cover_'):], _plain(v)) for k, v in d.items()
                       if k.startswith('cover_')]
        self.assume_inv = d.get('assume_inv', True)
        self.check_inv = d.get('check_inv', True)
        # a constructor that deliberately leaves fields of the class shape to later phases
        self.check_fields = d.get('check_fields', True)
        self.shapes = dict(d.get('shapes', {}))
        self.note = d.get('note', '')
        self.reify = d.get('reify')
        self.split = d.get('split')
        # verified against its own contract as a unit, but inlined at call sites (its contract
        # speaks about ghost parameters that a caller cannot supply); reported in evidence
        self.at_calls = d.get('at_calls', 'inline' if 'fresh_params' in d else 'contract')
        self.inline_at_calls = self.at_calls == 'inline'
        self.abstract_raises = tuple(d.get('abstract_raises', (Exception,)))
        # fresh_params(ctx) -> {param: value}: parameters that are generated jointly (a message
        # together with the value it encodes); sample_params(rng) is its native counterpart
        self.fresh_params = _plain(d['fresh_params']) if 'fresh_params' in d else None
        self.sample_params = _plain(d['sample_params']) if 'sample_params' in d else None
        # params_from_ghosts({ghost_x: value}) -> {param: value}: rebuild the real arguments from the
        # (lowered) ghost values of a counter-model, for native replay
        self.params_from_ghosts = _plain(d['params_from_ghosts']) if 'params_from_ghosts' in d else None
        # native_replay: {obligation name: callable() -> (failures | None, info)}: a scripted
        # scenario on the real code that replays a counter-model of that obligation (used where the
        # model itself cannot be injected: whole sessions over sockets and threads)
        self.native_replay = dict(d.get('native_replay', {}))
        # variants: {name: {attribute: value}}: the same function verified again under other
        # parameter shapes / loop contracts (a scenario); obligations get the suffix [name]
        self.variants = dict(d.get('variants', {}))

    def shape_of(self, pname, registry):
        if pname in self.shapes:
            return self.shapes[pname]
        if pname in self.params:
            return self.params[pname]
        if pname == 'self':
            cc = registry.class_contract_of(self)
            if cc is not None:
                return cc.shape
        return None


def _plain(f):
    if isinstance(f, (staticmethod, classmethod)):
        return f.__func__
    return f


class ClassContract:
    def __init__(self, qualname, cls, spec_cls, props):
        self.qualname = qualname
        self.cls = cls
        self.props = props
        d = spec_cls.__dict__
        self.shape = d.get('shape')
        self.inv = _plain(d['inv']) if 'inv' in d else None
        self.rebuild = _plain(d['rebuild']) if 'rebuild' in d else None
        self.sample = _plain(d['sample']) if 'sample' in d else None
        # trace(model_obj) -> (fresh real object, [(method qualname, {arg: value}), ...]): the public
        # API calls that should lead from a fresh object to the model state (replay of class
        # invariant counter-models: each step is checked natively against its own contract)
        self.trace = _plain(d['trace']) if 'trace' in d else None
        # random_trace(rng) -> (fresh real object, stepper) with stepper(obj, i) -> (method qualname,
        # kwargs) | None: random API-level histories for the bounded stand-in and for the search
        # behind a counter-model that does not replay
        self.random_trace = _plain(d['random_trace']) if 'random_trace' in d else None


class Lemma:
    def __init__(self, name, spec_cls, props):
        self.name = name
        self.props = props
        d = spec_cls.__dict__
        self.params = dict(d.get('params', {}))
        self.requires = [(k[len('requires_'):], _plain(v)) for k, v in d.items()
                         if k.startswith('requires_')]
        self.ensures = [(k[len('ensures_'):], _plain(v)) for k, v in d.items()
                        if k.startswith('ensures_')]
        self.note = d.get('note', '')
        self.native_check = d.get('native_check', True)


class Registry:
    def __init__(self):
        self.fns = {}       # qualname -> FnContract
        self.by_code = {}   # code object -> FnContract
        self.classes = {}   # cls -> ClassContract
        self.classes_by_name = {}
        self.lemmas = {}

    def lookup(self, fn):
        code = getattr(fn, '__code__', None)
        hit = self.by_code.get(id(code))
        return hit[1] if hit is not None and hit[0] is code else None

    def class_contract_of(self, c):
        from .interp import defining_class
        cls = defining_class(c.fn)
        if cls is None:
            return None
        for k in cls.__mro__:
            if k in self.classes:
                return self.classes[k]
        return None

    def class_contract_for_cls(self, cls):
        for k in cls.__mro__:
            if k in self.classes:
                return self.classes[k]
        return None


REGISTRY = Registry()


def resolve(qualname):
    parts = qualname.split('.')
    for i in range(len(parts), 0, -1):
        try:
            mod = importlib.import_module('.'.join(parts[:i]))
        except ImportError:
            continue
        obj = mod
        raw = None
        for p in parts[i:]:
            raw = inspect.getattr_static(obj, p)
            obj = getattr(obj, p)
        return obj, raw
    raise EngineError(f'cannot resolve {qualname}')


def _unwrap_fn(obj, raw):
    if isinstance(raw, property):
        return raw.fget
    if isinstance(raw, (staticmethod, classmethod)):
        raw = raw.__func__
    # a memoising wrapper (functools.lru_cache): the wrapped function is what the contract is
    # about; that its results are shared between calls is reported by the frame obligation
    # `no_state_shared_between_calls` (pyvc/hidden.py), not by a crash of the registration
    if hasattr(raw, 'cache_info') and hasattr(raw, '__wrapped__'):
        raw = raw.__wrapped__
    if hasattr(obj, 'cache_info') and hasattr(obj, '__wrapped__'):
        obj = obj.__wrapped__
    if inspect.isfunction(raw):
        return raw
    if inspect.isfunction(obj):
        return obj
    if inspect.ismethod(obj):
        return obj.__func__
    raise EngineError(f'not a function: {obj!r}')


def contract(qualname, props=(), mode='contract'):
    def deco(spec_cls):
        obj, raw = resolve(qualname)
        fn = _unwrap_fn(obj, raw)
        c = FnContract(qualname, fn, spec_cls, list(props), mode)
        REGISTRY.fns[qualname] = c
        REGISTRY.by_code[id(fn.__code__)] = (fn.__code__, c)   # identity: equal code objects of
        return spec_cls                                          # different classes must not collide
    return deco


def transparent(*qualnames, props=()):
    for q in qualnames:
        obj, raw = resolve(q)
        fn = _unwrap_fn(obj, raw)
        c = FnContract(q, fn, None, list(props), 'transparent')
        REGISTRY.fns[q] = c
        REGISTRY.by_code[id(fn.__code__)] = (fn.__code__, c)


def klass(qualname, props=()):
    def deco(spec_cls):
        obj, _ = resolve(qualname)
        cc = ClassContract(qualname, obj, spec_cls, list(props))
        REGISTRY.classes[obj] = cc
        REGISTRY.classes_by_name[qualname] = cc
        return spec_cls
    return deco


def lemma(name, props=()):
    def deco(spec_cls):
        REGISTRY.lemmas[name] = Lemma(name, spec_cls, list(props))
        return spec_cls
    return deco

"""Per-path context: decision script, path condition, incremental solver, obligations."""
from __future__ import annotations

import time
import z3

from . import values as V
from .values import BT, EngineError


import os as _os
_DEBUG_OBL = bool(_os.environ.get('PYVC_DEBUG_OBL'))


class PathEnd(Exception):
    """The current path stops here (vacuous assumption, loop body verified, infeasible)."""

    def __init__(self, reason=''):
        super().__init__(reason)
        self.reason = reason


class NeedFork(Exception):
    pass


class Obligation:
    __slots__ = ('name', 'status', 'model', 'detail', 'secs', 'backend', 'smt2', 'where')

    def __init__(self, name, status, model=None, detail='', secs=0.0, backend='z3', smt2=None,
                 where=''):
        self.name = name
        self.status = status  # 'proved' | 'failed' | 'unknown'
        self.model = model
        self.detail = detail
        self.secs = secs
        self.backend = backend
        self.smt2 = smt2
        self.where = where


class Ctx:
    FEAS_TIMEOUT_MS = 3000

    def __init__(self, script=None, goal_timeout_ms=60000, keep_smt2=False):
        self.script = list(script or [])
        self.pos = 0
        self.pc = []
        self.solver = z3.Solver()
        self.alts = []
        self.nofork = 0
        self.counters = {}
        self.obligations = []
        self.goal_timeout_ms = goal_timeout_ms
        self.keep_smt2 = keep_smt2
        self.spec_depth = 0
        self.solver_secs = 0.0
        self.entry = {}  # name -> (shape, value) of entry symbols for reification
        self.where = ''
        self.muts = V.reset_alloc()
        self.assume_log = None  # list collecting assumptions made inside a speculative branch
        self.ndecisions = 0
        self.split = None   # (Int term, codes): complete case split used when a goal is not decided at once

    # -- fresh symbols ---------------------------------------------------------------------------
    def fresh_name(self, hint):
        k = self.counters.get(hint, 0)
        self.counters[hint] = k + 1
        return hint if k == 0 else f'{hint}!{k}'

    def fresh_int(self, hint):
        return z3.Int(self.fresh_name(hint))

    def fresh_bool(self, hint):
        return z3.Bool(self.fresh_name(hint))

    # -- solver ----------------------------------------------------------------------------------
    def _check(self, extra, timeout_ms):
        t0 = time.time()
        self.solver.set('timeout', timeout_ms)
        self.solver.push()
        try:
            self.solver.add(extra)
            r = self.solver.check()
            m = self.solver.model() if r == z3.sat else None
        finally:
            self.solver.pop()
        self.solver_secs += time.time() - t0
        return r, m

    def feasible(self, t):
        r, _ = self._check(t, self.FEAS_TIMEOUT_MS)
        return r != z3.unsat

    def add_pc(self, t):
        self.pc.append(t)
        self.solver.add(t)
        if self.assume_log is not None:
            self.assume_log.append(t)

    # -- decisions -------------------------------------------------------------------------------
    def decide(self, cond):
        """Concretise a (possibly symbolic) boolean; forks the exploration when both ways are
        feasible."""
        if isinstance(cond, bool):
            return cond
        t = z3.simplify(BT(cond))
        if z3.is_true(t):
            return True
        if z3.is_false(t):
            return False
        self.ndecisions += 1
        if self.pos < len(self.script):
            kind, choice = self.script[self.pos]
            if kind != 'd':
                raise EngineError(f'script desync: expected decision, got {kind}')
            self.pos += 1
            self.add_pc(t if choice else z3.Not(t))
            return choice
        ft = self.feasible(t)
        ff = self.feasible(z3.Not(t))
        if ft and ff:
            if self.nofork:
                raise NeedFork()
            self.alts.append(self.script[:self.pos] + [('d', False)])
            choice = True
        elif ft:
            choice = True
        elif ff:
            choice = False
        else:
            raise PathEnd('infeasible')
        self.script.append(('d', choice))
        self.pos += 1
        self.add_pc(t if choice else z3.Not(t))
        return choice

    def choose(self, n, label=''):
        """Unconstrained n-way fork (loop rule, nondeterministic externals). Returns 0..n-1."""
        if self.pos < len(self.script):
            kind, choice = self.script[self.pos]
            if kind != 'c':
                raise EngineError(f'script desync: expected choice, got {kind}')
            self.pos += 1
            return choice
        if self.nofork and n > 1:
            raise NeedFork()
        for k in range(1, n):
            self.alts.append(self.script[:self.pos] + [('c', k)])
        self.script.append(('c', 0))
        self.pos += 1
        return 0

    def decide_among(self, term, codes):
        """Concretise an Int term to one of the given codes (feasible ones only)."""
        if self.pos < len(self.script):
            kind, choice = self.script[self.pos]
            if kind != 'v':
                raise EngineError(f'script desync: expected value, got {kind}')
            self.pos += 1
            self.add_pc(term == choice)
            return choice
        feas = [c for c in codes if self.feasible(term == c)]
        if not feas:
            raise PathEnd('infeasible')
        if len(feas) > 1 and self.nofork:
            raise NeedFork()
        for c in feas[1:]:
            self.alts.append(self.script[:self.pos] + [('v', c)])
        self.script.append(('v', feas[0]))
        self.pos += 1
        self.add_pc(term == feas[0])
        return feas[0]

    def decide_by_model(self, term, cap=64):
        """Concretise an Int term by enumerating its feasible values one solver model at a time
        (complete for finite domains; EngineError beyond `cap` values)."""
        excl = []
        if self.pos < len(self.script):
            kind, payload = self.script[self.pos]
            if kind == 'm':
                self.pos += 1
                self.add_pc(term == payload)
                return payload
            if kind != 'mx':
                raise EngineError(f'script desync: expected model value, got {kind}')
            excl = list(payload)
            del self.script[self.pos:]
        if len(excl) >= cap:
            raise EngineError('too many values for model enumeration')
        cons = z3.And([term != e for e in excl]) if excl else z3.BoolVal(True)
        r, m = self._check(cons, self.FEAS_TIMEOUT_MS)
        if r != z3.sat:
            raise PathEnd('infeasible')
        val = m.eval(term, model_completion=True).as_long()
        more = self.feasible(z3.And(cons, term != val))
        if more:
            if self.nofork:
                raise NeedFork()
            self.alts.append(self.script[:self.pos] + [('mx', excl + [val])])
        self.script.append(('m', val))
        self.pos += 1
        self.add_pc(term == val)
        return val

    def spec_record(self, ok=None):
        """Record / replay whether a speculative merge succeeded."""
        if ok is None:
            if self.pos < len(self.script):
                kind, choice = self.script[self.pos]
                if kind != 's':
                    raise EngineError(f'script desync: expected spec, got {kind}')
                return choice
            return None
        if self.pos < len(self.script):
            self.pos += 1
            return
        self.script.append(('s', ok))
        self.pos += 1

    def assume(self, cond):
        if cond is True:
            return
        if cond is False:
            raise PathEnd('vacuous')
        t = z3.simplify(BT(cond))
        if z3.is_true(t):
            return
        if z3.is_false(t):
            raise PathEnd('vacuous')
        self.add_pc(t)

    def assume_type(self, t):
        self.add_pc(t)

    def sat_now(self):
        r, _ = self._check(z3.BoolVal(True), self.FEAS_TIMEOUT_MS)
        return r

    # -- obligations -----------------------------------------------------------------------------
    def oblige(self, name, cond, where=''):
        if cond is True:
            self.obligations.append(Obligation(name, 'proved', backend='syntactic', where=where))
            return True
        goal = z3.BoolVal(False) if cond is False else z3.simplify(BT(cond))
        if z3.is_true(goal):
            self.obligations.append(Obligation(name, 'proved', backend='syntactic', where=where))
            return True
        t0 = time.time()
        smt2 = None
        if self.keep_smt2:
            s2 = z3.Solver()
            s2.add(self.pc)
            s2.add(z3.Not(goal))
            smt2 = s2.to_smt2()
        if self.split is not None:
            r, m = self._check(z3.Not(goal), min(self.goal_timeout_ms, 1500))
            if r == z3.unknown:
                # complete case split on the values of some entry constants: each case is the
                # formula with the constants *substituted* and simplified, in a fresh solver
                consts, combos, domain = self.split
                t1 = time.time()
                F = z3.And(z3.And(self.pc) if self.pc else z3.BoolVal(True), z3.Not(goal))
                r = z3.unsat
                for combo in combos:
                    Fs = z3.simplify(z3.substitute(F, *[(k, z3.IntVal(v))
                                                        for k, v in zip(consts, combo)]))
                    if z3.is_false(Fs):
                        continue
                    s2 = z3.Solver()
                    s2.set('timeout', self.goal_timeout_ms)
                    s2.add(Fs)
                    rk = s2.check()
                    if rk == z3.sat:
                        s2.add([k == v for k, v in zip(consts, combo)])
                        s2.check()
                        r, m = rk, s2.model()
                        break
                    if rk == z3.unknown:
                        r = rk
                if r == z3.unsat:
                    # the cases are exhaustive under the path condition
                    rr, _ = self._check(z3.Not(domain), self.goal_timeout_ms)
                    if rr != z3.unsat:
                        r = z3.unknown
                self.solver_secs += time.time() - t1
        else:
            r, m = self._check(z3.Not(goal), self.goal_timeout_ms)
        secs = time.time() - t0
        if _DEBUG_OBL:
            import sys
            print(f'OBL {name} {r} {secs:.2f}s', file=sys.stderr, flush=True)
        if r == z3.unsat:
            self.obligations.append(Obligation(name, 'proved', secs=secs, smt2=smt2, where=where))
            return True
        if r == z3.sat:
            self.obligations.append(Obligation(name, 'failed', model=m, secs=secs, smt2=smt2,
                                               where=where, detail=str(goal)[:2000]))
            return False
        reason = self.solver.reason_unknown()
        # portfolio: the incremental context gave up -- try a fresh z3 context, then cvc5
        s2 = z3.Solver()
        s2.set('timeout', self.goal_timeout_ms)
        s2.add(self.pc)
        s2.add(z3.Not(goal))
        if smt2 is None:
            smt2 = s2.to_smt2()
        t1 = time.time()
        r2 = s2.check()
        backend = 'z3'
        if r2 == z3.unknown:
            r2 = self._cvc5(smt2)
            backend = 'cvc5'
        self.solver_secs += time.time() - t1
        secs = time.time() - t0
        if r2 == z3.unsat:
            self.obligations.append(Obligation(name, 'proved', secs=secs, smt2=smt2, where=where,
                                               backend=backend))
            return True
        if r2 == z3.sat and backend == 'z3':
            self.obligations.append(Obligation(name, 'failed', model=s2.model(), secs=secs,
                                               smt2=smt2, where=where, detail=str(goal)[:2000]))
            return False
        self.obligations.append(Obligation(name, 'unknown', secs=secs, smt2=smt2, where=where,
                                           detail=reason))
        return None

    def _cvc5(self, smt2):
        import os
        import subprocess
        import tempfile
        with tempfile.NamedTemporaryFile('w', suffix='.smt2', delete=False) as f:
            f.write(smt2)
            path = f.name
        try:
            t = max(10, self.goal_timeout_ms // 1000)
            r = subprocess.run(['/usr/bin/cvc5', '--lang=smt2', f'--tlimit={t * 1000}', path],
                               capture_output=True, text=True, timeout=t + 10)
            out = (r.stdout or '').strip().splitlines()
            if out and out[0] == 'unsat':
                return z3.unsat
            return z3.unknown        # a cvc5 'sat' carries no model we could replay: undecided
        except Exception:
            return z3.unknown
        finally:
            os.unlink(path)

"""External objects (sockets, ...) with assumed contracts over ghost state (DESIGN 2.12), and byte
strings.  Everything here is trusted and listed in the evidence as an assumption."""
from __future__ import annotations

import z3

from . import values as V
from .values import (BT, T, EngineError, Mut, SBool, SInt, SList, SSeq, Sym, b_and, b_not, b_or,
                     mk_bool, mk_int)


class SExt(Mut):
    """External object of a given kind with ghost fields."""

    def __init__(self, kind, fields=None):
        super().__init__()
        self.kind = kind
        self.fields = dict(fields or {})

    def get_slots(self):
        return dict(self.fields)

    def set_slots(self, s):
        self.fields = dict(s)

    def clone(self, memo):
        r = SExt(self.kind)
        memo[self.oid] = r
        r.fields = {k: V.clone_value(x, memo) for k, x in self.fields.items()}
        return r

    def __repr__(self):
        return f'SExt({self.kind})'


class SByte1(Sym):
    """Result of recv(1): one byte (code) or b'' (not nonempty)."""
    __slots__ = ('nonempty', 'code')

    def __init__(self, nonempty, code):
        self.nonempty = nonempty
        self.code = code


class SBytes(Sym):
    """Byte string of symbolic length: seq is an SSeq of ints (never mutated in place)."""
    __slots__ = ('n', 'arr')

    def __init__(self, n, arr):
        self.n = n
        self.arr = arr


class SDecoded(Sym):
    """The str whose UTF-8 encoding is `raw` (an SBytes)."""
    __slots__ = ('raw',)

    def __init__(self, raw):
        self.raw = raw


class SDecodedLower(Sym):
    """d.lower() of a decoded message d (only ever compared with a literal)."""
    __slots__ = ('d',)

    def __init__(self, d):
        self.d = d


def decoded_eq(it, d, other):
    """d == other for a received message d (the str whose UTF-8 bytes are d.raw).

    A literal is compared byte by byte (exact).  A text with unknown parts (a team name ...) gives
    an uninterpreted truth value, the same for the same message and the same text: both outcomes are
    followed, nothing is assumed about an unknown message."""
    from .strings import XStr
    from .values import mk_bool, b_or, b_and, T
    raw = d.raw
    if isinstance(other, SDecoded):
        if other is d or (other.raw.arr.eq(raw.arr) and z3.simplify(T(other.raw.n) == T(raw.n)).eq(
                z3.BoolVal(True))):
            return True
        raise EngineError('comparison of two different received messages')
    if isinstance(other, XStr):
        other = other.simplify()

    def lit_eq(text):
        bs = text.encode('utf-8')
        return mk_bool(z3.And(T(raw.n) == len(bs), *[z3.Select(raw.arr, i) == b
                                                     for i, b in enumerate(bs)]))
    if isinstance(other, str):
        return lit_eq(other)
    if isinstance(other, XStr):
        if other.alts is not None:
            return b_or(*[b_and(mk_bool(g) if not isinstance(g, bool) else g, lit_eq(t))
                          for g, t in other.alts])
        # (conditional pieces -- a seat name that depends on a symbolic seat -- are part of the
        # key through the identity of their guards)
        key = (raw.arr.get_id(), T(raw.n).get_id(),
               tuple((g if isinstance(g, bool) else g.get_id(),
                      p if isinstance(p, str) else ('atom', p.name)) for g, p in other.segs))
        cache = it.__dict__.setdefault('_decoded_eq', {})
        if key not in cache:
            cache[key] = mk_bool(it.ctx.fresh_bool('msg_is'))
        return cache[key]
    return False


def decoded_lower_eq(it, dl, other):
    """d.lower() == literal, exact for ASCII literals (no character outside ASCII lower-cases to
    one of s t a r o f b d ...; 'k' and 'i' are excluded because U+212A and U+0130 do)."""
    from .values import mk_bool, T
    if not isinstance(other, str) or not other.isascii() or any(c in 'ki' for c in other) or \
            other != other.lower():
        raise EngineError('lower() of a received message compared with something but an ASCII '
                          'lower-case literal without k / i')
    raw = dl.d.raw
    conj = [T(raw.n) == len(other)]
    for i, c in enumerate(other):
        b = z3.Select(raw.arr, i)
        conj.append(z3.Or(b == ord(c), b == ord(c.upper())) if c.isalpha() else b == ord(c))
    return mk_bool(z3.And(*conj))


LINE_BLANK, LINE_PERCENT, LINE_CONTENT = 0, 1, 2
_line_kind = z3.Function('line_kind', z3.IntSort(), z3.IntSort())


class AbsLine(Sym):
    """A line of a text file known only by its kind (assumed classification, DESIGN 4/C17):
    BLANK    consists of blanks / tabs / CR / LF only (at least one): fullmatch('[ \\t\\r\\n]+')
    PERCENT  first character is '%'
    CONTENT  anything else that is not empty and contains no comment opener ('; ' or '{ ')
    id is the line's identity (an Int term); the kind is line_kind(id)."""
    __slots__ = ('id',)

    def __init__(self, id_term):
        self.id = id_term

    def kind(self):
        return _line_kind(T(self.id))


class AbsFirstChar(Sym):
    __slots__ = ('line',)

    def __init__(self, line):
        self.line = line


class LineElem:
    """Element descriptor for Seq(...) of abstract lines."""

    def wrap(self, t):
        return AbsLine(mk_int(t))

    def unwrap(self, v):
        return T(v.id)

    def typ(self, t):
        return z3.And(_line_kind(t) >= 0, _line_kind(t) <= 2)

    def default(self):
        return AbsLine(0)


class SChar(Sym):
    """One character of a text of symbolic length (its code point)."""
    __slots__ = ('code',)

    def __init__(self, code):
        self.code = code


class SCharSeq(Sym):
    """A text of symbolic length: character i (0 <= i < n) is arr[off + i].  Immutable; slices
    share the array (they are views), concatenation stores behind the view."""
    __slots__ = ('arr', 'off', 'n')

    def __init__(self, arr, off, n):
        self.arr, self.off, self.n = arr, off, n

    def length(self):
        return mk_int(T(self.n))

    def char(self, i):
        return SChar(mk_int(z3.Select(self.arr, T(self.off) + T(i))))

    def getitem(self, it, idx):
        from .interp import PyRaise
        n = self.length()
        i = it.norm_index(idx, n)
        return self.char(i)

    def getslice(self, it, lo, hi, st):
        if st is not None or not all(x is None or (isinstance(x, int) and x >= 0) for x in (lo, hi)):
            raise EngineError('slice of a symbolic-length text with these bounds')
        n = T(self.n)
        a = z3.IntVal(0) if lo is None else z3.If(n < lo, n, z3.IntVal(lo))
        b = n if hi is None else z3.If(n < hi, n, z3.IntVal(hi))
        return SCharSeq(self.arr, z3.simplify(T(self.off) + a),
                        z3.simplify(z3.If(b - a > 0, b - a, 0)))

    def concat(self, lit):
        arr, n = self.arr, T(self.n)
        for k, ch in enumerate(lit):
            arr = z3.Store(arr, T(self.off) + n + k, z3.IntVal(ord(ch)))
        return SCharSeq(arr, self.off, z3.simplify(n + len(lit)))


class JDump(Sym):
    """json.dumps(v): the JSON text of the value v (assumed law: json.loads(json.dumps(v)) == v
    for JSON-able v with str keys; the text contains no line break since indent=None)."""
    __slots__ = ('v',)

    def __init__(self, v):
        self.v = v


def file_write(it, f, text):
    f.fields['out'].items.append(text)
    return None


def bytes_add(it, a, b):
    """a + b for (bytes | SBytes) + SByte1."""
    if isinstance(a, (bytes, bytearray)):
        if len(a) != 0:
            raise EngineError('concrete non-empty bytes + symbolic byte')
        a = SBytes(z3.IntVal(0), z3.K(z3.IntSort(), z3.IntVal(0)))
    if isinstance(a, SBytes) and isinstance(b, SByte1):
        ne = BT(b.nonempty)
        n2 = z3.simplify(a.n + z3.If(ne, 1, 0))
        arr2 = z3.If(ne, z3.Store(a.arr, a.n, T(b.code)), a.arr)
        return SBytes(n2, arr2)
    raise EngineError('bytes concatenation')


def bytes_eq(it, a, b):
    if isinstance(b, SByte1) and not isinstance(a, SByte1):
        a, b = b, a
    if isinstance(a, SByte1) and isinstance(b, (bytes, bytearray)):
        if len(b) == 0:
            return b_not(a.nonempty)
        if len(b) == 1:
            return b_and(a.nonempty, mk_bool(T(a.code) == b[0]))
        return False
    raise EngineError('bytes comparison')


# ---- method tables -----------------------------------------------------------------------------

def _sock_usable(it, sock):
    """Ghost life cycle of a client-side socket (objects made by socket.socket(), or shapes that
    carry the ghost field `connected`): transfer on a socket that was never connected, or that this
    side has closed, raises OSError.  Accepted connections carry no such field: they are connected
    by construction."""
    from .interp import PyRaise
    if 'connected' not in sock.fields:
        return
    bad = V.b_or(b_not(sock.fields['connected']), sock.fields.get('closed', False))
    if it.ctx.decide(bad):
        raise PyRaise(OSError, ('socket is not connected',))


def sock_connect(it, sock, addr=None):
    if 'connected' in sock.fields:
        sock.fields['connected'] = True
    return None


def sock_recv(it, sock, n):
    if n != 1:
        raise EngineError('recv(n) is modelled for n == 1 only')
    _sock_usable(it, sock)
    data = sock.fields['data']
    pos = sock.fields['pos']
    ne = mk_bool(T(pos) < T(data.n))
    code = z3.Select(data.arr, T(pos))
    it.ctx.assume_type(z3.Implies(BT(ne), z3.And(code >= 0, code <= 255)))
    sock.fields['pos'] = mk_int(z3.If(BT(ne), T(pos) + 1, T(pos)))
    return SByte1(ne, mk_int(code))


def sock_sendall(it, sock, payload):
    from .strings import XBytes
    _sock_usable(it, sock)
    if isinstance(payload, XBytes):
        text = payload.s
    elif isinstance(payload, bytes):
        text = payload.decode('utf-8')
    else:
        raise EngineError('sendall of a non-text payload')
    sock.fields['sent'].items.append(text)
    return None


def queue_put(it, q, item, *a, **k):
    q.fields['out'].items.append(item)
    return None


def queue_get(it, q, *a, **k):
    """Assumed contract of queue.Queue as a FIFO channel fed by another thread: get() returns the
    next message of the producer's stream -- here an arbitrary text without CR (what a seat's
    receive_message can deliver) -- or, for interruptible queues, raises KeyboardInterrupt (the
    operator interrupts the blocked table manager)."""
    from .strings import XStr
    from .interp import PyRaise
    if q.fields.get('interruptible'):
        if it.ctx.decide(mk_bool(it.ctx.fresh_bool('interrupted'))):
            raise PyRaise(KeyboardInterrupt, ('<operator>',))
    script = q.fields.get('script')
    if script is not None:
        msg = script(it, q)            # a scenario: the seat sends a message of a known family
    else:
        msg = XStr.atom(it.ctx.fresh_name('msg'), excl='\r')
    q.fields['gets'].items.append(msg)
    return msg


def _none(it, obj, *a, **k):
    return None


def _event_op(opname):
    def f(it, ev, *a, **k):
        ops = ev.fields.get('ops')
        if ops is not None:
            ops.items.append(opname)       # ghost trace of the operations on this event
        return None
    return f


def _fresh_bool(it, obj, *a, **k):
    return mk_bool(it.ctx.fresh_bool('ext_bool'))


def ssocket_accept(it, sock):
    conn = SExt('socket', dict(data=_fresh_bytes_seq(it, 'conn_data'), pos=0, sent=SList([]),
                               closed=False))
    return (conn, ('<addr>', 0))


def _fresh_bytes_seq(it, name):
    from .dsl import IntElem
    n = it.ctx.fresh_int(name + '_len')
    it.ctx.assume_type(n >= 0)
    return SSeq(n, z3.Array(it.ctx.fresh_name(name + '_arr'), z3.IntSort(), z3.IntSort()), IntElem())


def boardlist_getitem(it, bl, idx):
    from .interp import PyRaise
    n = bl.fields['n']
    if it.ctx.decide(mk_bool(z3.Or(T(idx) < -T(n), T(idx) >= T(n)))):
        raise PyRaise(IndexError, ('list index out of range',))
    bl.fields['reads'].items.append(idx)
    item = bl.fields['item_shape'].fresh(it.ctx, it.ctx.fresh_name('board_setting'))
    pred = bl.fields.get('item_pred')
    if pred is not None:
        # assumed well-formedness of a configured board (e.g. the four hands are disjoint)
        it.ctx.assume(it.truth(it.run_body(pred, {'b': item})))
    bl.fields['last_orig'] = V.clone_value(item, {})     # ghost: the board as configured
    return item


GETITEM = {'boardlist': boardlist_getitem}
LEN = {'boardlist': lambda it, o: o.fields['n']}


METHODS = {
    ('file', 'write'): file_write,
    ('file', '__enter__'): lambda it, f: f,
    ('file', '__exit__'): lambda it, f, *a: False,
    ('file', 'close'): _none,
    ('queue', 'put'): queue_put,
    ('queue', 'get'): queue_get,
    ('event', 'wait'): _event_op('wait'),
    ('event', 'set'): _event_op('set'),
    ('event', 'clear'): _event_op('clear'),
    ('event', 'is_set'): _fresh_bool,
    ('ssocket', 'bind'): _none,
    ('ssocket', 'listen'): _none,
    ('ssocket', 'accept'): ssocket_accept,
    ('ssocket', 'close'): _none,
    ('ssocket', 'connect'): _none,
    ('socket', 'connect'): sock_connect,
    ('socket', 'bind'): _none,
    ('socket', 'listen'): _none,
    ('socket', 'recv'): sock_recv,
    ('socket', 'sendall'): sock_sendall,
    ('socket', 'close'): lambda it, s: s.fields.__setitem__('closed', True),
}


def call_method(it, obj, name, args, kwargs):
    f = METHODS.get((obj.kind, name))
    if f is None:
        raise EngineError(f'external {obj.kind}.{name} has no assumed contract')
    it.used.add(f'<ext> {obj.kind}.{name}')
    return f(it, obj, *args, **kwargs)


EXT_ASSUMPTIONS = {
    'socket.recv': 'socket.recv(1) returns the next byte of the peer\'s stream, b"" at end of stream',
    'socket.sendall': 'socket.sendall(b) appends b to what the peer reads (no loss, no reordering)',
    'socket.close': 'socket.close() has no effect on data already exchanged',
    'socket.connect': 'socket.connect() succeeds (a refused connection is outside the properties); '
                      'send/recv on a socket that was never connected, or was closed, raise OSError',
    'queue.put': 'queue.Queue is a thread-safe FIFO channel: put appends',
    'queue.get': 'queue.Queue.get returns the items put, in order; what another thread puts is an '
                 'arbitrary text (it may block: blocking / progress is not modelled); for the main '
                 'thread it may raise KeyboardInterrupt (operator)',
    'event.wait': 'threading.Event.wait/set/clear carry no data (only the assumed barrier contract '
                  'of PlayerThread._sync_event speaks about what other threads have done)',
    'file.write': 'file.write(s) appends s to the file text; the with-block closes the file',
    'ssocket.accept': 'socket.accept() returns a fresh connection with an arbitrary byte stream',
}


# ---- native fakes ------------------------------------------------------------------------------

class ReplaySkip(BaseException):
    """The native harness cannot continue this run (e.g. a blocking read with nothing scripted):
    the run is skipped, it is neither a pass nor a failure."""


class NonTermination(BaseException):
    """Raised by a native fake when the code under replay evidently does not terminate."""


class FakeFile:
    """Text file opened for writing: remembers the chunks written since it was created."""

    def __init__(self, out=None):
        self.out = list(out or [])

    def write(self, text):
        self.out.append(text)
        return len(text)

    def __eq__(self, other):
        return isinstance(other, FakeFile) and self.out == other.out

    def __repr__(self):
        return f'FakeFile({self.out!r})'


class FakeQueue:
    """Queue whose put() records and whose get() replays a scripted list of inputs."""

    def __init__(self, out=None, gets=None, inputs=None):
        self.out = list(out or [])
        self.gets = list(gets or [])
        self.inputs = list(inputs or [])

    def put(self, item, *a, **k):
        self.out.append(item)

    def get(self, *a, **k):
        if not self.inputs:
            raise ReplaySkip('Queue.get() would block: no scripted input left')
        m = self.inputs.pop(0)
        self.gets.append(m)
        return m

    def __eq__(self, other):
        return isinstance(other, FakeQueue) and (self.out, self.gets) == (other.out, other.gets)

    def __repr__(self):
        return f'FakeQueue(out={self.out!r}, gets={self.gets!r})'


class FakeEvent:
    def wait(self, *a):
        return True

    def set(self):
        pass

    def clear(self):
        pass

    def is_set(self):
        return True

    def __eq__(self, other):
        return isinstance(other, FakeEvent)

    def __repr__(self):
        return 'FakeEvent()'


class FakeSocket:
    def __init__(self, data=b'', pos=0, sent=None, closed=False, connected=True):
        self.data = bytes(data)
        self.pos = pos
        self.sent = list(sent or [])
        self.closed = closed
        # ghost life cycle (see _sock_usable): accepted / sampled connections are connected; a
        # socket made by the patched socket.socket() is not, until connect()
        self.connected = connected
        self._eof_reads = 0

    def connect(self, addr=None):
        self.connected = True

    def bind(self, addr=None):
        pass

    def listen(self, n=0):
        pass

    def _usable(self):
        if not self.connected:
            raise OSError('socket is not connected')

    def recv(self, n):
        self._usable()
        if self.pos < len(self.data):
            b = self.data[self.pos:self.pos + n]
            self.pos += len(b)
            return b
        self._eof_reads += 1
        if self._eof_reads > 10000:
            raise NonTermination('recv() returned b"" (end of stream) 10000 times in a row')
        return b''

    def sendall(self, payload):
        self._usable()
        self.sent.append(payload.decode('utf-8'))

    def close(self):
        self.closed = True

    def __eq__(self, other):
        return isinstance(other, FakeSocket) and (self.data, self.pos, self.sent, self.closed) == \
            (other.data, other.pos, other.sent, other.closed)

    def __repr__(self):
        return f'FakeSocket(data={self.data!r}, pos={self.pos}, sent={self.sent!r})'


class _FakeSocketModule:
    """Stands in for the name `socket` inside bridge_env.network_bridge.socket_interface during a
    native run: socket.socket(...) makes a FakeSocket that is not yet connected."""
    AF_INET = 2
    SOCK_STREAM = 1

    @staticmethod
    def socket(*a, **k):
        return FakeSocket(connected=False)


class native_world:
    """Context manager for native runs of the real code: the constructors of operating-system
    objects the code under contract calls (socket.socket, Queue, Event) make the native fakes, so
    that the ghost fields the contracts speak about (sent, out, gets, closed, connected) exist on
    the real run too.  Everything is put back on exit."""
    PATCHES = (('bridge_env.network_bridge.socket_interface', 'socket', _FakeSocketModule),
               ('bridge_env.network_bridge.server', 'Queue', FakeQueue),
               ('bridge_env.network_bridge.server', 'Event', FakeEvent))

    def __enter__(self):
        import importlib
        self.saved = []
        for mod, name, val in self.PATCHES:
            try:
                m = importlib.import_module(mod)
            except Exception:
                continue
            if hasattr(m, name):
                self.saved.append((m, name, getattr(m, name)))
                setattr(m, name, val)
        return self

    def __exit__(self, *a):
        for m, name, val in self.saved:
            setattr(m, name, val)
        return False

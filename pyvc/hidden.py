"""Frame obligation `<fn>/frame/no_state_shared_between_calls`.

Every contract in /verif/contracts states the result and the effect of a call as a function of the
call's arguments (and of `self`).  That is only meaningful if the real function keeps no state
outside its arguments: no memoising wrapper, no mutable default argument, no mutable module-level
or class-level container that it (or an unregistered helper it calls) writes to or lets escape.
The evaluator reads module globals by constant folding, so such state is invisible to the symbolic
run; this module makes the premise an explicit obligation, discharged syntactically on the real
function objects of the tree under analysis (re-read on every run):

  H1  the name the callers use is bound to a memoising wrapper (functools.lru_cache / cache);
  H2  a parameter default is a mutable container that the body mutates in place or lets escape;
  H3  the body refers to a module-level mutable container that is not a constant table
      (constant table: all elements deeply immutable, and no function of the module mutates it);
  H4  the body reaches, through self / cls / the class name, a class-level mutable container that
      __init__ does not shadow with an instance attribute.

Unregistered repository helpers called by name are followed (a helper without a contract cannot
hide state from its caller's obligation).

A failed obligation is replayed natively by a *differential run* on the real code: the same call is
made (i) with the hidden state restored to its import-time snapshot and (ii) after another call --
a one-field perturbation of the same arguments, or a fresh sample -- has been made; the violation
is `reproduced` if the two outcomes differ, or if the results of two calls share a mutable object.
"""
from __future__ import annotations

import ast
import collections
import copy
import dataclasses
import enum
import inspect
import re
import textwrap
import types

MUTABLE = (list, dict, set, bytearray, collections.deque)
MUTATORS = {'append', 'extend', 'insert', 'pop', 'remove', 'clear', 'sort', 'reverse', 'add',
            'discard', 'update', 'setdefault', 'popitem', 'appendleft', 'popleft',
            'difference_update', 'intersection_update', 'symmetric_difference_update',
            '__setitem__', '__delitem__'}
READERS = {'len', 'sorted', 'sum', 'min', 'max', 'any', 'all', 'enumerate', 'zip', 'iter',
           'isinstance', 'str', 'repr', 'bool', 'print', 'reversed', 'range'}


def deep_immutable(v, depth=0):
    if depth > 6:
        return False
    if v is None or isinstance(v, (bool, int, float, complex, str, bytes, enum.Enum, re.Pattern,
                                   type, types.FunctionType, types.BuiltinFunctionType,
                                   types.ModuleType, range)):
        return True
    if isinstance(v, (tuple, frozenset)):
        return all(deep_immutable(x, depth + 1) for x in v)
    if dataclasses.is_dataclass(v) and not isinstance(v, type) and \
            getattr(type(v), '__dataclass_params__', None) is not None and \
            type(v).__dataclass_params__.frozen:
        return all(deep_immutable(getattr(v, f.name), depth + 1) for f in dataclasses.fields(v))
    return False


def elements_immutable(c):
    if isinstance(c, dict):
        return all(deep_immutable(k) and deep_immutable(x) for k, x in c.items())
    try:
        return all(deep_immutable(x) for x in c)
    except TypeError:
        return False


def _fn_ast(fn):
    try:
        src = textwrap.dedent(inspect.getsource(fn))
        tree = ast.parse(src)
    except (OSError, TypeError, SyntaxError, IndentationError):
        return None
    for n in ast.walk(tree):
        if isinstance(n, (ast.FunctionDef, ast.AsyncFunctionDef)):
            return n
    return None


def _module_ast(fn):
    mod = inspect.getmodule(fn)
    try:
        return ast.parse(inspect.getsource(mod))
    except (OSError, TypeError, SyntaxError):
        return None


def _is_target(node, name, attr):
    """node denotes the tracked object: Name(name) (attr None) or <anything>.attr."""
    if attr is None:
        return isinstance(node, ast.Name) and node.id == name
    return isinstance(node, ast.Attribute) and node.attr == attr


def uses(tree, name=None, attr=None):
    """How a tracked object is used below `tree`: subset of {'read', 'mutated', 'escapes'}."""
    out = set()
    if tree is None:
        return out
    parents = {}
    for p in ast.walk(tree):
        for ch in ast.iter_child_nodes(p):
            parents[ch] = p
    for n in ast.walk(tree):
        if not _is_target(n, name, attr):
            continue
        p = parents.get(n)
        if attr is not None and isinstance(n.ctx, ast.Store):
            continue                     # re-binding the attribute itself (instance attribute)
        out.add('read')
        if isinstance(p, ast.Subscript) and p.value is n:
            if isinstance(p.ctx, (ast.Store, ast.Del)):
                out.add('mutated')
            else:
                # an element is taken out: what happens to it is not followed
                gp = parents.get(p)
                if isinstance(gp, ast.Attribute) and gp.attr in MUTATORS:
                    out.add('mutated')
                elif isinstance(gp, ast.Subscript) and isinstance(gp.ctx, (ast.Store, ast.Del)):
                    out.add('mutated')
                else:
                    out.add('element-read')
        elif isinstance(p, ast.AugAssign) and p.target is n:
            out.add('mutated')
        elif isinstance(p, ast.Attribute) and p.value is n:
            gp = parents.get(p)
            if p.attr in MUTATORS and isinstance(gp, ast.Call) and gp.func is p:
                out.add('mutated')
            elif p.attr in ('copy', 'items', 'values', 'get'):
                out.add('element-read')
        elif isinstance(p, ast.Call) and n in p.args or \
                isinstance(p, ast.keyword):
            call = p if isinstance(p, ast.Call) else parents.get(p)
            f = getattr(call, 'func', None)
            if isinstance(f, ast.Name) and f.id in READERS:
                pass
            elif isinstance(f, ast.Name) and f.id in ('dict', 'list', 'set', 'tuple', 'frozenset'):
                out.add('element-read')      # shallow copy: the elements are shared
            else:
                out.add('escapes')
        elif isinstance(p, (ast.Return, ast.Yield, ast.Assign, ast.AnnAssign, ast.Tuple, ast.List,
                            ast.Dict, ast.Set, ast.Starred, ast.IfExp)):
            if not (isinstance(p, (ast.Assign, ast.AnnAssign)) and
                    (n in getattr(p, 'targets', ()) or n is getattr(p, 'target', None))):
                out.add('escapes')
        elif isinstance(p, ast.For) and p.iter is n:
            out.add('element-read')
        elif isinstance(p, ast.comprehension) and p.iter is n:
            out.add('element-read')
    return out


def _module_mutates(fn, name=None, attr=None):
    m = _module_ast(fn)
    if m is None:
        return True
    for n in ast.walk(m):
        if isinstance(n, (ast.FunctionDef, ast.AsyncFunctionDef)):
            if 'mutated' in uses(n, name, attr):
                return True
            if name is not None:
                for g in ast.walk(n):
                    if isinstance(g, ast.Global) and name in g.names:
                        return True
    return False


def _memo(obj):
    return hasattr(obj, 'cache_info') and hasattr(obj, '__wrapped__')


def _bound_object(fn):
    """The object the callers actually reach under the function's name."""
    mod = inspect.getmodule(fn)
    parts = fn.__qualname__.split('.')
    obj = mod
    try:
        for p in parts[:-1]:
            obj = getattr(obj, p)
        raw = obj.__dict__.get(parts[-1]) if isinstance(obj, type) else getattr(obj, parts[-1])
    except AttributeError:
        return None
    if isinstance(raw, (staticmethod, classmethod)):
        raw = raw.__func__
    if isinstance(raw, property):
        raw = raw.fget
    return raw


def _owner_class(fn):
    mod = inspect.getmodule(fn)
    parts = fn.__qualname__.split('.')
    if len(parts) < 2:
        return None
    obj = mod
    try:
        for p in parts[:-1]:
            obj = getattr(obj, p)
    except AttributeError:
        return None
    return obj if isinstance(obj, type) else None


def _init_assigns(cls, attr):
    for k in cls.__mro__:
        init = k.__dict__.get('__init__')
        if isinstance(init, types.FunctionType):
            t = _fn_ast(init)
            if t is None:
                continue
            for n in ast.walk(t):
                if isinstance(n, ast.Attribute) and n.attr == attr and isinstance(n.ctx, ast.Store) \
                        and isinstance(n.value, ast.Name) and n.value.id == 'self':
                    return True
    return False


class Finding:
    def __init__(self, kind, text, holder=None, key=None):
        self.kind, self.text, self.holder, self.key = kind, text, holder, key

    def __repr__(self):
        return f'{self.kind}: {self.text}'


def analyze(fn, registered=lambda f: False, _seen=None, via=''):
    """Findings for one real function object (and the unregistered repository helpers it calls)."""
    seen = _seen if _seen is not None else set()
    if id(fn) in seen:
        return []
    seen.add(id(fn))
    out = []
    where = fn.__qualname__ + (f' (called from {via})' if via else '')
    raw = _bound_object(fn)
    if raw is not None and _memo(raw):
        out.append(Finding('H1', f'{where} is wrapped by a memoising cache: results (and any '
                                 f'mutable object among them) are shared between calls',
                           holder=('memo', raw)))
    tree = _fn_ast(fn)
    # H2 mutable defaults
    sig_defaults = []
    try:
        for pname, p in inspect.signature(fn).parameters.items():
            if p.default is not inspect.Parameter.empty and isinstance(p.default, MUTABLE):
                sig_defaults.append((pname, p.default))
    except (TypeError, ValueError):
        pass
    for pname, dv in sig_defaults:
        u = uses(tree, pname)
        if u & {'mutated', 'escapes'} or ('element-read' in u and not elements_immutable(dv)):
            out.append(Finding('H2', f'{where}: mutable default argument {pname}={dv!r} is '
                                     f'{"/".join(sorted(u & {"mutated", "escapes", "element-read"}))}: '
                                     f'one object serves every call',
                               holder=('object', dv)))
    # H3 module-level containers, helpers
    g = fn.__globals__
    names = [n for n in fn.__code__.co_names if n in g]
    # nested code objects (comprehensions, lambdas)
    stack = list(fn.__code__.co_consts)
    while stack:
        k = stack.pop()
        if isinstance(k, types.CodeType):
            names += [n for n in k.co_names if n in g]
            stack.extend(k.co_consts)
    for name in dict.fromkeys(names):
        v = g[name]
        if isinstance(v, MUTABLE):
            u = uses(tree, name)
            const = elements_immutable(v) and not _module_mutates(fn, name) and \
                'escapes' not in u
            if not const:
                why = []
                if not elements_immutable(v):
                    why.append('holds mutable objects')
                if _module_mutates(fn, name):
                    why.append('is modified by a function of its module')
                if 'escapes' in u:
                    why.append('is handed out by reference')
                out.append(Finding('H3', f'{where} uses the module-level {type(v).__name__} '
                                         f'`{name}` which ' + ', '.join(why),
                                   holder=('object', v)))
        elif _memo(v) and getattr(v, '__module__', '').startswith('bridge_env'):
            out.append(Finding('H1', f'{where} calls `{name}`, wrapped by a memoising cache',
                               holder=('memo', v)))
        elif isinstance(v, types.FunctionType) and v.__module__.startswith('bridge_env') \
                and not registered(v):
            out.extend(analyze(v, registered, seen, via=fn.__qualname__))
    # H4 class-level containers
    cls = _owner_class(fn)
    if cls is not None and tree is not None:
        for k in cls.__mro__:
            if not getattr(k, '__module__', '').startswith('bridge_env') or \
                    issubclass(k, enum.Enum):
                continue
            for attr, v in vars(k).items():
                if attr.startswith('__') or not isinstance(v, MUTABLE):
                    continue
                u = uses(tree, attr=attr)
                if not u:
                    continue
                if _init_assigns(cls, attr):
                    continue
                const = elements_immutable(v) and not _module_mutates(fn, attr=attr) and \
                    'escapes' not in u
                if not const:
                    out.append(Finding('H4', f'{where} reaches the class-level '
                                             f'{type(v).__name__} `{k.__name__}.{attr}` that no '
                                             f'__init__ replaces by an instance attribute: every '
                                             f'instance shares it', holder=('object', v)))
    return out


# ---- differential replay on the real code ----------------------------------------------------------

def _mutables(x, acc=None, depth=0):
    acc = {} if acc is None else acc
    if depth > 8 or id(x) in acc:
        return acc
    if isinstance(x, MUTABLE):
        acc[id(x)] = x
        it = list(x.items()) if isinstance(x, dict) else list(x)
        for e in it:
            if isinstance(e, tuple):
                for y in e:
                    _mutables(y, acc, depth + 1)
            else:
                _mutables(e, acc, depth + 1)
    elif isinstance(x, tuple):
        for e in x:
            _mutables(e, acc, depth + 1)
    elif hasattr(x, '__dict__') and not isinstance(x, (type, types.ModuleType, types.FunctionType,
                                                        enum.Enum)):
        for e in vars(x).values():
            _mutables(e, acc, depth + 1)
    return acc


class _State:
    """Import-time snapshot of the hidden objects of some findings, restorable in place."""

    def __init__(self, findings):
        self.items = []
        for f in findings:
            if f.holder is None:
                continue
            kind, obj = f.holder
            if kind == 'memo':
                self.items.append(('memo', obj, None))
            else:
                try:
                    self.items.append(('object', obj, copy.deepcopy(obj)))
                except Exception:
                    pass

    def restore(self):
        for kind, obj, snap in self.items:
            if kind == 'memo':
                obj.cache_clear()
            else:
                fresh = copy.deepcopy(snap)
                if isinstance(obj, dict):
                    obj.clear()
                    obj.update(fresh)
                elif isinstance(obj, (list, bytearray, collections.deque)):
                    obj.clear()
                    obj.extend(fresh)
                elif isinstance(obj, set):
                    obj.clear()
                    obj.update(fresh)


def _callable(c):
    """What the callers reach: the memoising wrapper if there is one, else the function."""
    raw = _bound_object(c.fn)
    return raw if raw is not None and _memo(raw) else c.fn


def _call(c, args, describe):
    order = [k for k in args if not k.startswith('ghost_')]
    try:
        r = _callable(c)(*[args[k] for k in order])
        if inspect.isgeneratorfunction(c.fn):
            r = list(r)
        out = ('return', describe(r))
    except Exception as e:  # noqa
        r = None
        out = ('raise ' + type(e).__name__, str(e)[:200])
    post = {k: describe(args[k]) for k in order}
    return out, post, r


def _perturbations(a, b):
    """Arguments equal to `a` except for one top-level field (or one key of a dict argument)
    taken from `b`."""
    for k in a:
        if k.startswith('ghost_') or k not in b:
            continue
        if isinstance(a[k], dict) and isinstance(b[k], dict):
            for kk in a[k]:
                if kk in b[k]:
                    y = copy.deepcopy(a)
                    y[k][kk] = copy.deepcopy(b[k][kk])
                    yield y
        y = copy.deepcopy(a)
        y[k] = copy.deepcopy(b[k])
        yield y
        # a smaller version of the same argument (one entry of a dict / list dropped): what an
        # earlier, larger call left behind then shows.  Independence of earlier calls must hold
        # for every input, inside or outside the domain of the functional contract.
        if isinstance(a[k], dict) and len(a[k]) > 1:
            y = copy.deepcopy(a)
            y[k].pop(next(iter(y[k])))
            yield y
            y = copy.deepcopy(a)
            y[k].pop(list(y[k])[-1])
            yield y
        elif isinstance(a[k], list) and len(a[k]) > 1:
            y = copy.deepcopy(a)
            y[k].pop()
            yield y
    yield copy.deepcopy(b)


def differential_replay(c, registry, findings, rng, budget=60, seconds=20.0):
    import time
    from . import native
    st = _State(findings)
    t0 = time.time()
    tried = 0
    desc = native.describe_native
    for _ in range(budget):
        if time.time() - t0 > seconds:
            break
        try:
            a = native.sample_args(c, registry, rng)
            b = native.sample_args(c, registry, rng)
        except Exception:
            continue
        if a is None or b is None:
            break
        try:
            copy.deepcopy(a)
        except Exception:
            break
        for y in _perturbations(a, b):
            tried += 1
            # (i) the call on y with the hidden state as at import time
            st.restore()
            try:
                o_fresh, p_fresh, r_fresh = _call(c, copy.deepcopy(y), desc)
            except BaseException:  # noqa
                continue
            # (ii) the same call after the call on a
            st.restore()
            try:
                o_a, _p, r_a = _call(c, copy.deepcopy(a), desc)
                y2 = copy.deepcopy(y)
                o_after, p_after, r_after = _call(c, y2, desc)
            except BaseException:  # noqa
                continue
            finally:
                pass
            shared = None
            if r_a is not None and r_after is not None:
                ma = _mutables(r_a if not c.is_init else None)
                mb = _mutables(r_after if not c.is_init else None)
                both = set(ma) & set(mb)
                if both:
                    shared = 'the results of two calls share a mutable object'
            if c.is_init or 'self' in y2:
                # objects left by two calls on distinct receivers must not share mutable parts
                a2 = copy.deepcopy(a)
                st.restore()
                try:
                    _call(c, a2, desc)
                    y3 = copy.deepcopy(y)
                    _call(c, y3, desc)
                    ma = _mutables(a2.get('self'))
                    mb = _mutables(y3.get('self'))
                    if set(ma) & set(mb):
                        shared = 'the receivers of two calls share a mutable object afterwards'
                except BaseException:  # noqa
                    pass
            if o_fresh != o_after or p_fresh != p_after or shared:
                st.restore()
                import base64
                import pickle
                try:
                    pk = base64.b64encode(pickle.dumps((a, y))).decode()
                except Exception:
                    pk = None
                return dict(verdict='reproduced', kind='differential',
                            inputs=dict(first_call={k: desc(v) for k, v in a.items()},
                                        second_call={k: desc(v) for k, v in y.items()}),
                            native_failures=[(c.fn.__qualname__ + '/frame/no_state_shared_between_calls',
                                              shared or 'the outcome of a call depends on an earlier call')],
                            info=dict(second_call_alone=[o_fresh, p_fresh],
                                      second_call_after_first=[o_after, p_after],
                                      sharing=shared),
                            pair_pickle_b64=pk)
    st.restore()
    return dict(verdict='no-failing-input-found', native_failures=[], info=dict(pairs_tried=tried),
                why_not='no pair of calls was found whose outcome depends on their order')


def replay_pair(c, registry, findings, a, y):
    """Re-run a recorded pair (replay file)."""
    from . import native
    desc = native.describe_native
    st = _State(findings)
    st.restore()
    o_fresh, p_fresh, _ = _call(c, copy.deepcopy(y), desc)
    st.restore()
    a1 = copy.deepcopy(a)
    _o, _p, r_a = _call(c, a1, desc)
    y1 = copy.deepcopy(y)
    o_after, p_after, r_after = _call(c, y1, desc)
    shared = bool(set(_mutables(r_a)) & set(_mutables(r_after))) if not c.is_init else False
    if 'self' in a1 and 'self' in y1:
        shared = shared or bool(set(_mutables(a1['self'])) & set(_mutables(y1['self'])))
    st.restore()
    if o_fresh != o_after or p_fresh != p_after or shared:
        return [(c.fn.__qualname__ + '/frame/no_state_shared_between_calls',
                 'sharing' if shared else 'the outcome of a call depends on an earlier call')], \
            dict(alone=[o_fresh, p_fresh], after=[o_after, p_after])
    return [], {}

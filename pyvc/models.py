"""Models of builtins, container methods and the few external library functions the code uses.

Everything here is part of the trusted base (DESIGN 2.12); concrete arguments are passed to the
real CPython function (constant folding), symbolic ones to the models below.
"""
from __future__ import annotations

import ast
import builtins
import copy
import enum
import inspect
import json
import random
import re
import time
import types

import z3

from . import values as V
from .values import (BT, T, BoundMethod, CannotMerge, Closure, EngineError, EnumInfo, Frame,
                     GList, Mut, SBool, SCardSet, SDict, SEnum, SInt, SList, SObj, SOpt, SSeq,
                     SSet, SVec, Sym, UNBOUND, b_and, b_implies, b_ite, b_not, b_or,
                     is_bool_like, is_card, is_enum_like, is_int_like, mk_bool, mk_card, mk_enum,
                     mk_int, mk_opt)

try:
    import numpy as np
except Exception:  # pragma: no cover
    np = None

MODELS = {}


class SRange:
    """range(start, stop[, step]) with symbolic bounds (step a positive constant) -- only consumed
    by a for loop with an invariant."""

    def __init__(self, start, stop, step=1):
        if not isinstance(step, int) or step <= 0:
            raise EngineError('range step must be a positive constant')
        self.start, self.stop, self.step = start, stop, step

    def length(self, it):
        d = it.binop(ast.Sub(), self.stop, self.start)
        if isinstance(d, int):
            return max(0, (d + self.step - 1) // self.step)
        if self.step != 1:
            raise EngineError('symbolic range with a step')
        return mk_int(z3.If(T(d) > 0, T(d), 0))

    def at(self, it, i):
        return it.binop(ast.Add(), self.start, it.binop(ast.Mult(), i, self.step))


class EnumSeq:
    """enumerate(<list of symbolic length>) -- only consumed by a for loop with an invariant."""

    def __init__(self, seq, start):
        self.seq = seq
        self.start = start


def _I():
    from . import interp
    return interp


def model(fn):
    def deco(f):
        MODELS[fn] = f
        return f
    return deco


def all_native(args, kwargs=None):
    I = _I()
    return all(I.is_native(a) for a in args) and all(I.is_native(a) for a in (kwargs or {}).values())


# ------------------------------------------------------------------------------------------------
# native attribute access / calls

_SAFE_MODULES = ('re', 'json', 'copy', 'random', 'time', 'numpy', 'datetime', 'pathlib', 'math',
                 'socket', 'queue', 'threading', 'logging', 'types', 'enum', 'typing')


def native_getattr(it, obj, name):
    I = _I()
    try:
        return getattr(obj, name)
    except AttributeError as e:
        raise I.PyRaise(AttributeError, e.args)


def call_native(it, f, args, kwargs):
    I = _I()
    m = MODELS.get(f)
    if m is not None:
        mod = (getattr(f, '__module__', '') or '').split('.')[0]
        if mod in ('json', 'random', 'numpy', 'copy', 're', 'time', 'threading', 'queue') or \
                f is open:
            it.used.add(f'<model> {mod or "builtins"}.{getattr(f, "__name__", f)}')
        return m(it, *args, **kwargs)
    # bound methods of native objects (str.upper, re.Match.group, ...)
    if all_native(args, kwargs):
        if isinstance(f, (types.BuiltinFunctionType, types.BuiltinMethodType,
                          types.MethodWrapperType, types.MethodType, type)) or \
                (inspect.isfunction(f) and (f.__module__ or '').split('.')[0] in _SAFE_MODULES) \
                or callable(f):
            owner = getattr(f, '__self__', None)
            if isinstance(owner, Mut):
                raise EngineError(f'native call on container {f}')
            try:
                r = f(*args, **kwargs)
            except I.PyRaise:
                raise
            except EngineError:
                raise
            except Exception as e:
                raise I.PyRaise(type(e), e.args)
            return lift_native_result(it, r)
    # method of a concrete str with symbolic args etc.
    from .strings import str_method_native
    owner = getattr(f, '__self__', None)
    if isinstance(owner, str):
        return str_method_native(it, owner, f.__name__, args, kwargs)
    raise EngineError(f'call of native {getattr(f, "__qualname__", f)!r} with symbolic arguments')


def lift_native_result(it, r):
    if isinstance(r, list):
        return SList([lift_native_result(it, x) for x in r])
    if isinstance(r, dict):
        return SDict({k: lift_native_result(it, v) for k, v in r.items()})
    if isinstance(r, tuple):
        return tuple(lift_native_result(it, x) for x in r)
    if isinstance(r, set):
        return it.make_set(list(r))
    if np is not None and isinstance(r, np.ndarray):
        return SVec([x.item() for x in r], r.dtype)
    if np is not None and isinstance(r, np.generic):
        return r.item()
    return r


def call_descriptor(it, bm, args, kwargs):
    I = _I()
    name = getattr(bm.fn, '__name__', '')
    if name == '__init__':
        return None
    if name in ('__eq__', '__ne__') and len(args) == 1:
        r = it.eq(bm.self_val, args[0])
        return r if name == '__eq__' else b_not(r)
    if name == '__hash__':
        raise EngineError('hash')
    raise EngineError(f'descriptor {name}')


# ------------------------------------------------------------------------------------------------
# builtins


def py_len(it, x):
    from .strings import XStr
    if isinstance(x, SOpt):
        x = it.unopt(x)
    if isinstance(x, SList):
        if x.items and x.items[0] is V.PENDING:
            raise V.PendingRead('a trace is read before a postcondition has defined it')
        from .dsl import EARLIER, OpaqueVal as _OV
        if any(isinstance(e, _OV.Val) and e.name == EARLIER for e in x.items):
            raise EngineError('length of a list whose earlier items are abstracted (TracePrefix)')
        return len(x.items)
    if isinstance(x, SDict):
        return len(x.d)
    if isinstance(x, SSet):
        return len(x.items)
    if isinstance(x, SCardSet):
        kl = getattr(x, 'known_len', None)
        if kl is not None and len(kl[1]) == len(x.guards) and \
                all(a is b for a, b in zip(kl[1], x.guards)):
            return kl[0]
        n = 0
        ts = []
        for g in x.guards:
            if g is True:
                n += 1
            elif g is not False:
                ts.append(z3.If(BT(g), 1, 0))
        return mk_int(z3.Sum(ts) + n) if ts else n
    if isinstance(x, GList):
        n = 0
        ts = []
        for g, _ in x.items:
            if g is True:
                n += 1
            elif g is not False:
                ts.append(z3.If(BT(g), 1, 0))
        return mk_int(z3.Sum(ts) + n) if ts else n
    if isinstance(x, SSeq):
        return mk_int(T(x.n))
    if isinstance(x, SVec):
        return len(x.slots)
    if type(x).__name__ == 'SExt':
        from . import ext as _ext
        f = _ext.LEN.get(x.kind)
        if f is None:
            raise _I().PyRaise(TypeError, ('no len',))
        return f(it, x)
    if isinstance(x, (V.SMap, SRange)):
        raise EngineError('len() of a lazy list')
    if type(x).__name__ == 'SCharSeq':
        return x.length()
    if isinstance(x, XStr):
        return x.length()
    if isinstance(x, SObj):
        f = it.lookup_class_attr(x.cls, '__len__')
        if f is not None:
            return it.call_function(f, [x], {})
        raise _I().PyRaise(TypeError, ('no len',))
    try:
        return len(x)
    except TypeError as e:
        raise _I().PyRaise(TypeError, e.args)


@model(len)
def _len(it, x):
    return py_len(it, x)


@model(abs)
def _abs(it, x):
    if isinstance(x, SInt):
        return mk_int(z3.If(x.t >= 0, x.t, -x.t))
    return abs(x)


@model(isinstance)
def _isinstance(it, v, cls):
    from .strings import XStr
    if isinstance(cls, tuple):
        return any(_isinstance(it, v, c) for c in cls)
    if isinstance(v, SOpt):
        v = it.unopt(v)
    if isinstance(v, SObj):
        return issubclass(v.cls, cls)
    if isinstance(v, SEnum):
        return issubclass(v.cls, cls)
    if isinstance(v, SInt):
        return cls in (int, object)
    if isinstance(v, SBool):
        return cls in (bool, int, object)
    if isinstance(v, (SList, SSeq, GList)):
        return cls in (list, object)
    if isinstance(v, SDict):
        return cls in (dict, object)
    if isinstance(v, (SCardSet, SSet)):
        return cls in (set, object)
    if isinstance(v, XStr):
        return cls in (str, object)
    if isinstance(v, SVec):
        return np is not None and cls in (np.ndarray, object)
    return isinstance(v, cls)


@model(str)
def _str(it, x=''):
    return it.to_str(x)


@model(repr)
def _repr(it, x):
    return it.to_repr(x)


@model(int)
def _int(it, x=0, base=None):
    from .strings import XStr, str_to_int
    I = _I()
    if isinstance(x, SOpt):
        x = it.unopt(x)
    if isinstance(x, (SInt,)):
        return x
    if isinstance(x, SBool):
        return mk_int(z3.If(x.t, 1, 0))
    if isinstance(x, XStr):
        return str_to_int(it, x)
    if isinstance(x, (SObj,)) or V.is_card(x):
        cls = x.cls if isinstance(x, SObj) else type(x)
        f = it.lookup_class_attr(cls, '__int__')
        if f is None:
            raise I.PyRaise(TypeError, ('int()',))
        return it.call_function(f, [x], {})
    if isinstance(x, float):
        return int(x)
    try:
        return int(x) if base is None else int(x, base)
    except Exception as e:
        raise I.PyRaise(type(e), e.args)


@model(bool)
def _bool(it, x=False):
    return it.truth(x)


@model(list)
def _list(it, x=()):
    if isinstance(x, (GList,)):
        return x
    if isinstance(x, SCardSet):
        # list(set): some order; we fix ascending card order (iteration order of a set is
        # unspecified -- callers may only depend on the elements)
        return GList([(g, V.concrete_card(i)) for i, g in enumerate(x.guards) if g is not False])
    return SList(it.iterate(x))


@model(tuple)
def _tuple(it, x=()):
    if isinstance(x, GList):
        return x
    if isinstance(x, SSeq):
        # tuple of a symbolic-length list: an (immutable by convention) copy
        return SSeq(x.n, x.arr, x.elem)
    return tuple(it.iterate(x))


@model(set)
def _set(it, x=()):
    if isinstance(x, SCardSet):
        return SCardSet(x.guards)
    if isinstance(x, GList):
        s = SCardSet()
        for g, v in x.items:
            it.cardset_add(s, v, guard=g)
        return s
    items = it.iterate(x)
    if not items:
        return SCardSet() if getattr(it, 'empty_set_is_cardset', True) else SSet()
    return it.make_set(items)


@model(dict)
def _dict(it, x=None, **kw):
    d = SDict()
    if x is not None:
        if isinstance(x, SDict):
            d.d = dict(x.d)
        else:
            for kv in it.iterate(x):
                k, v = it.iterate(kv)
                it.setitem(d, k, v)
    for k, v in kw.items():
        d.d[k] = v
    return d


@model(dict.fromkeys)
def _fromkeys(it, keys, value=None):
    d = SDict()
    for k in it.iterate(keys):
        it.setitem(d, k, value)      # every key maps to the SAME value object, as in CPython
    return d


@model(range)
def _range(it, *a):
    if not all(isinstance(x, int) for x in a):
        if len(a) == 1:
            return SRange(0, a[0])
        return SRange(*a)
    return range(*a)


@model(enumerate)
def _enumerate(it, xs, start=0):
    if isinstance(xs, SSeq):
        return EnumSeq(xs, start)
    g = it.iterate_guarded(xs)
    if all(x is True for x, _ in g):
        return [(i + start, v) for i, (_, v) in enumerate(g)]
    raise EngineError('enumerate over a guarded sequence')


@model(zip)
def _zip(it, *xs):
    ls = [it.iterate(x) for x in xs]
    return [tuple(t) for t in zip(*ls)]


@model(map)
def _map(it, f, *xs):
    ls = [it.iterate(x) for x in xs]
    return SList([it.call(f, list(t), {}) for t in zip(*ls)])


@model(reversed)
def _reversed(it, xs):
    return SList(list(reversed(it.iterate(xs))))


@model(sorted)
def _sorted(it, xs, key=None, reverse=False):
    I = _I()
    if key is not None:
        raise EngineError('sorted with key')
    if isinstance(xs, SCardSet):
        order = range(51, -1, -1) if reverse else range(52)
        return GList([(xs.guards[i], V.concrete_card(i)) for i in order
                      if xs.guards[i] is not False])
    if isinstance(xs, GList):
        # guarded list of cards: sort by card index
        if all(V.is_card(v) and not isinstance(v, SObj) for _, v in xs.items):
            guards = [False] * 52
            for g, v in xs.items:
                i = V.card_index(v)
                guards[i] = b_or(guards[i], g)
            order = range(51, -1, -1) if reverse else range(52)
            return GList([(guards[i], V.concrete_card(i)) for i in order
                          if guards[i] is not False])
        raise EngineError('sorted of guarded list')
    items = it.iterate(xs)
    if all(I.is_native(x) for x in items):
        if all(V.is_card(x) for x in items):
            # Card ordering is defined by the repo's __lt__; use its index semantics after
            # checking the leaf contract (C15) -- here: int(card) order
            items = sorted(items, key=lambda c: V.card_index(c), reverse=bool(reverse))
            return SList(items)
        try:
            return SList(sorted(items, reverse=bool(reverse)))
        except Exception as e:
            raise I.PyRaise(type(e), e.args)
    raise EngineError('sorted of symbolic items')


@model(sum)
def _sum(it, xs, start=0):
    tot = start
    for g, v in it.iterate_guarded(xs):
        if g is True:
            tot = it.binop(ast.Add(), tot, v)
        else:
            tot = it.binop(ast.Add(), tot, V.merge(BT(g), v, 0))
    return tot


@model(all)
def _all(it, xs):
    return b_and(*[b_implies(g, it.truth(v)) for g, v in it.iterate_guarded(xs)])


@model(any)
def _any(it, xs):
    return b_or(*[b_and(g, it.truth(v)) for g, v in it.iterate_guarded(xs)])


def _minmax(it, args, is_min):
    items = it.iterate(args[0]) if len(args) == 1 else list(args)
    if not items:
        raise _I().PyRaise(ValueError, ('empty',))
    acc = items[0]
    for x in items[1:]:
        if isinstance(acc, Sym) or isinstance(x, Sym):
            c = (T(x) < T(acc)) if is_min else (T(x) > T(acc))
            acc = mk_int(z3.If(c, T(x), T(acc)))
        else:
            acc = min(acc, x) if is_min else max(acc, x)
    return acc


@model(min)
def _min(it, *a):
    return _minmax(it, a, True)


@model(max)
def _max(it, *a):
    return _minmax(it, a, False)


@model(print)
def _print(it, *a, **k):
    return None


@model(getattr)
def _getattr(it, o, n, *default):
    I = _I()
    try:
        return it.getattr(o, n)
    except I.PyRaise as e:
        if default and e.cls is AttributeError:
            return default[0]
        raise


@model(hasattr)
def _hasattr(it, o, n):
    if isinstance(o, SObj):
        return n in o.fields or it.lookup_class_attr(o.cls, n) is not None
    return hasattr(o, n)


@model(time.sleep)
def _sleep(it, s):
    return None


import threading as _threading
import queue as _queue


@model(_threading.Thread.__init__)
def _thread_init(it, self, *a, **k):
    return None


@model(_threading.Thread.start)
def _thread_start(it, self):
    if isinstance(self, SObj):
        self.fields['ghost_started'] = True
    return None


@model(_threading.Thread.join)
def _thread_join(it, self, timeout=None):
    return None


@model(_threading.Thread.is_alive)
def _thread_alive(it, self):
    return mk_bool(it.ctx.fresh_bool('alive'))


@model(_threading.Event)
def _event(it):
    from .ext import SExt
    return SExt('event', dict(ops=SList([])))


import socket as _socket_mod


@model(_socket_mod.socket)
def _socket_new(it, *a, **k):
    """Assumed: socket.socket() returns a fresh stream socket -- not connected, not closed, nothing
    sent; once connected, what the peer sends is an arbitrary byte stream (ghost `data`)."""
    from .ext import SExt, _fresh_bytes_seq
    return SExt('socket', dict(data=_fresh_bytes_seq(it, 'peer_data'), pos=0, sent=SList([]),
                               closed=False, connected=False))


@model(_queue.Queue)
def _queue_new(it, *a):
    from .ext import SExt
    return SExt('queue', dict(out=SList([]), gets=SList([]), interruptible=False))


@model(open)
def _open(it, path, mode='r', *a, **k):
    from .ext import SExt
    if mode != 'w':
        raise EngineError('open() is modelled for writing only')
    return SExt('file', dict(out=SList([])))


@model(json.load)
def _json_load(it, fp):
    """Assumed: json.load(fp) returns the document the file holds (for a file written by the
    streaming writers: {TAG: [records...]}, by the framing law and loads(dumps(v)) == v)."""
    from .ext import SExt
    if isinstance(fp, SExt) and fp.kind == 'jsonfile':
        return fp.fields['doc']
    raise EngineError('json.load of an unknown file object')


@model(json.dumps)
def _json_dumps(it, obj, indent=None, **kw):
    from .ext import JDump
    if kw or indent is not None:
        raise EngineError('json.dumps options other than indent=None')
    if all_native([obj]):
        try:
            return json.dumps(obj, indent=None)
        except (TypeError, ValueError) as e:
            # a value that is not JSON-able: the real json.dumps raises, before any output
            from .interp import PyRaise
            raise PyRaise(type(e), (str(e),))
    return JDump(obj)


@model(copy.deepcopy)
def _deepcopy(it, x):
    return V.clone_value(x, {})


@model(copy.copy)
def _copy(it, x):
    if isinstance(x, SCardSet):
        return SCardSet(x.guards)
    if isinstance(x, SList):
        return SList(x.items)
    raise EngineError('copy.copy')


# ------------------------------------------------------------------------------------------------
# regular expressions: concrete subjects go to CPython's re, structured ones to pyvc.xregex


def _re_args_native(pattern, subject):
    from .strings import XStr
    return isinstance(pattern, str) and isinstance(subject, str)


def _pat(it, pattern):
    from .strings import XStr, Undetermined
    if isinstance(pattern, XStr):
        pattern = pattern.simplify()
    if isinstance(pattern, XStr) and pattern.alts is not None:
        # a pattern built from a value with finitely many spellings: the path condition may
        # leave exactly one of them
        live = [t for g, t in pattern.alts if g is True or it.ctx.feasible(V.BT(g))]
        if len(live) == 1:
            pattern = live[0]
    if not isinstance(pattern, str):
        raise Undetermined('regular expression built from an unknown string')
    return pattern


def _conc(m, v):
    from .strings import XStr
    if isinstance(v, XStr):
        return v.concretize(m)
    if isinstance(v, tuple):
        return tuple(_conc(m, x) for x in v)
    if isinstance(v, SList):
        return [_conc(m, x) for x in v.items]
    return v


def _xcheck(it, kind, real_fn, pattern, subject, flags, result, extra=()):
    """Differential guard of the symbolic matcher (DESIGN 2.10): instantiate the subject with a
    model of the current path condition and compare with CPython's re on the real pattern."""
    ctx = it.ctx
    r, m = ctx._check(z3.BoolVal(True), ctx.FEAS_TIMEOUT_MS)
    if r != z3.sat:
        return result
    s = _conc(m, subject)
    try:
        if kind in ('match', 'fullmatch', 'search'):
            real = real_fn(pattern, s, flags)
            if (real is None) != (result is None):
                raise EngineError(f'xregex self-check: {kind}({pattern!r}, {s!r}) disagrees on '
                                  f'whether there is a match')
            if real is not None:
                got = tuple(_conc(m, result.group(k)) for k in range(0, result.ngroups + 1))
                want = tuple(real.group(k) for k in range(0, result.ngroups + 1))
                if got != want:
                    raise EngineError(f'xregex self-check: groups differ for {s!r}: {got} / {want}')
        elif kind == 'findall':
            if _conc(m, result) != real_fn(pattern, s, flags):
                raise EngineError(f'xregex self-check: findall differs for {s!r}')
        elif kind == 'sub':
            if _conc(m, result) != real_fn(pattern, extra[0], s, 0, flags):
                raise EngineError(f'xregex self-check: sub differs for {s!r}')
    except re.error:
        pass
    it.xregex_checks = getattr(it, 'xregex_checks', 0) + 1
    return result


def _native_re(fn, *a, **k):
    I = _I()
    try:
        return fn(*a, **k)
    except Exception as e:
        raise I.PyRaise(type(e), e.args)


class OpaqueMatch:
    """A match object about which nothing is known (only its truthiness is used)."""

    def group(self, *a):
        # an unknown captured text; the only use in the code base is int(group) for logging
        from .strings import XStr
        import itertools
        OpaqueMatch._n = getattr(OpaqueMatch, '_n', 0) + 1
        return XStr.atom(f'opaque_group{OpaqueMatch._n}', only='0123456789', minlen=1)


def _abs_line_match(it, kind, pattern, line):
    """re.fullmatch / re.match on an abstract line: decided for the blank-line pattern, otherwise an
    unknown outcome (a fresh Boolean)."""
    from . import ext as _ext
    if kind == 'fullmatch' and pattern == r'[ \t\r\n]+':
        c = mk_bool(line.kind() == _ext.LINE_BLANK)
    else:
        c = mk_bool(it.ctx.fresh_bool('re_unknown'))
    return OpaqueMatch() if it.ctx.decide(c) else None


@model(re.match)
def _re_match(it, pattern, string, flags=0):
    from . import xregex
    from . import ext as _ext
    pattern = _pat(it, pattern)
    if isinstance(string, _ext.AbsLine):
        return _abs_line_match(it, 'match', pattern, string)
    if isinstance(string, str):
        return _native_re(re.match, pattern, string, flags)
    return _xcheck(it, 'match', re.match, pattern, string, int(flags),
                   xregex.match(it, pattern, string, int(flags)))


@model(re.fullmatch)
def _re_fullmatch(it, pattern, string, flags=0):
    from . import xregex
    from . import ext as _ext
    pattern = _pat(it, pattern)
    if isinstance(string, (_ext.AbsLine, _ext.SDecoded)):
        if isinstance(string, _ext.SDecoded):
            return OpaqueMatch() if it.ctx.decide(mk_bool(it.ctx.fresh_bool('re_unknown'))) else None
        return _abs_line_match(it, 'fullmatch', pattern, string)
    if isinstance(string, str):
        return _native_re(re.fullmatch, pattern, string, flags)
    return _xcheck(it, 'fullmatch', re.fullmatch, pattern, string, int(flags),
                   xregex.match(it, pattern, string, int(flags), full=True))


@model(re.search)
def _re_search(it, pattern, string, flags=0):
    from . import xregex
    pattern = _pat(it, pattern)
    if isinstance(string, str):
        return _native_re(re.search, pattern, string, flags)
    return _xcheck(it, 'search', re.search, pattern, string, int(flags),
                   xregex.search(it, pattern, string, int(flags)))


@model(re.findall)
def _re_findall(it, pattern, string, flags=0):
    from . import xregex
    pattern = _pat(it, pattern)
    if isinstance(string, str):
        return lift_native_result(it, _native_re(re.findall, pattern, string, flags))
    return _xcheck(it, 'findall', re.findall, pattern, string, int(flags),
                   xregex.findall(it, pattern, string, int(flags)))


@model(re.sub)
def _re_sub(it, pattern, repl, string, count=0, flags=0):
    from . import xregex
    pattern = _pat(it, pattern)
    if isinstance(string, str) and isinstance(repl, str):
        return _native_re(re.sub, pattern, repl, string, count, flags)
    if count:
        raise EngineError('re.sub with count')
    return _xcheck(it, 'sub', re.sub, pattern, string, int(flags),
                   xregex.sub(it, pattern, repl, string, int(flags)), extra=(repl,))


# ------------------------------------------------------------------------------------------------
# container methods


def call_builtin_method(it, obj, name, args, kwargs):
    I = _I()
    from .strings import XStr
    if isinstance(obj, XStr):
        return obj.method(it, name, args, kwargs)
    from . import ext as _ext
    if isinstance(obj, _ext.SExt):
        return _ext.call_method(it, obj, name, args, kwargs)
    if isinstance(obj, _ext.SDecoded):
        if name == 'lower' and not args and not kwargs:
            return _ext.SDecodedLower(obj)
        raise EngineError(f'str.{name} of a received message')
    if isinstance(obj, _ext.SBytes):
        if name == 'decode':
            return _ext.SDecoded(obj)
        raise EngineError(f'bytes.{name}')
    if isinstance(obj, SList):
        if name == 'append':
            obj.items.append(args[0])
            return None
        if name == 'extend':
            obj.items.extend(it.iterate(args[0]))
            return None
        if name == 'pop':
            if not obj.items:
                raise I.PyRaise(IndexError, ('pop from empty list',))
            return obj.items.pop(*args)
        if name == 'index':
            for i, x in enumerate(obj.items):
                if it.ctx.decide(it.eq(x, args[0])):
                    return i
            raise I.PyRaise(ValueError, ('not in list',))
        if name == 'copy':
            return SList(obj.items)
        if name == 'insert':
            obj.items.insert(args[0], args[1])
            return None
        if name == 'count':
            tot = 0
            for x in obj.items:
                tot = it.binop(ast.Add(), tot, V.merge(BT(it.eq(x, args[0])), 1, 0)
                               if not isinstance(it.eq(x, args[0]), bool)
                               else int(it.eq(x, args[0])))
            return tot
    if isinstance(obj, SSeq):
        if name == 'append':
            obj.arr = z3.Store(obj.arr, T(obj.n), obj.elem.unwrap(args[0]))
            obj.n = z3.simplify(T(obj.n) + 1)
            return None
    if isinstance(obj, SDict):
        if name == 'items':
            return [(k, v) for k, v in obj.d.items()]
        if name == 'keys':
            return list(obj.d.keys())
        if name == 'values':
            return list(obj.d.values())
        if name == 'get':
            key = args[0]
            dflt = args[1] if len(args) > 1 else None
            if isinstance(key, Sym):
                raise EngineError('dict.get with symbolic key')
            return obj.d.get(key, dflt)
        if name == 'update':
            obj.d.update(args[0].d)
            return None
        if name == 'copy':
            return SDict(obj.d)
    if isinstance(obj, SCardSet):
        if name == 'add':
            it.cardset_add(obj, args[0])
            return None
        if name == 'remove':
            it.cardset_remove(obj, args[0], must_exist=True)
            return None
        if name == 'discard':
            it.cardset_remove(obj, args[0], must_exist=False)
            return None
        if name == 'copy':
            return SCardSet(obj.guards)
        if name == 'issubset':
            o = args[0]
            return b_and(*[b_implies(g, h) for g, h in zip(obj.guards, o.guards)])
        if name == 'isdisjoint':
            o = args[0]
            return b_and(*[b_not(b_and(g, h)) for g, h in zip(obj.guards, o.guards)])
        if name in ('union', 'intersection', 'difference'):
            o = args[0]
            f = {'union': lambda g, h: b_or(g, h), 'intersection': lambda g, h: b_and(g, h),
                 'difference': lambda g, h: b_and(g, b_not(h))}[name]
            return SCardSet([f(g, h) for g, h in zip(obj.guards, o.guards)])
    if isinstance(obj, SSet):
        if name == 'add':
            obj.items.add(args[0])
            return None
        if name == 'remove':
            if args[0] not in obj.items:
                raise I.PyRaise(KeyError, (args[0],))
            obj.items.remove(args[0])
            return None
    if isinstance(obj, SVec):
        return vec_method(it, obj, name, args, kwargs)
    raise EngineError(f'method {type(obj).__name__}.{name}')


# ------------------------------------------------------------------------------------------------
# numpy (assumed contracts)


def vec_method(it, v, name, args, kwargs):
    if name == 'copy':
        return SVec(v.slots, v.dtype)
    if name == 'tolist':
        return SList(v.slots)
    if name == 'sum':
        return _sum(it, v)
    raise EngineError(f'ndarray.{name}')


def vec_setitem(it, v, idx, val):
    n = len(v.slots)
    if isinstance(idx, (SList, GList)):
        # fancy index store with a list of ints
        for g, i in it.iterate_guarded(idx):
            if isinstance(i, int):
                k = it.norm_index(i, n)
                v.slots[k] = V.merge(BT(g), val, v.slots[k]) if g is not True else val
            else:
                raise EngineError('fancy index with symbolic int')
        return
    i = it.norm_index(idx, n)
    if isinstance(i, int):
        v.slots[i] = val
    else:
        v.slots = [V.merge(z3.simplify(T(i) == k), val, old) for k, old in enumerate(v.slots)]


def setslice(it, obj, lo, hi, val):
    """obj[lo:hi] = scalar  (numpy broadcasting store)."""
    if not isinstance(obj, SVec):
        raise EngineError('slice store on non-vector')
    if isinstance(val, (SList, SVec, GList, tuple)):
        raise EngineError('slice store of a sequence')
    n = len(obj.slots)

    def norm(x, default):
        if x is None:
            return default
        if isinstance(x, int):
            x = max(x + n, 0) if x < 0 else min(x, n)
            return x
        t = T(x)
        return mk_int(z3.If(t < 0, z3.If(t + n < 0, 0, t + n), z3.If(t > n, n, t)))
    a = norm(lo, 0)
    b = norm(hi, n)
    new = []
    for k, old in enumerate(obj.slots):
        inside = b_and(it.compare(ast.LtE(), a, k), it.compare(ast.Lt(), k, b))
        if inside is True:
            new.append(val)
        elif inside is False:
            new.append(old)
        else:
            new.append(V.merge(BT(inside), val, old))
    obj.slots = new


if np is not None:
    @model(np.ones)
    def _ones(it, n, dtype=None):
        return SVec([1] * n, dtype)

    @model(np.zeros)
    def _zeros(it, n, dtype=None):
        return SVec([0] * n, dtype)

    @model(np.where)
    def _where(it, cond):
        # cond: SVec of booleans (result of vec == scalar).  Returns a 1-tuple with the guarded
        # list of indices.
        if not isinstance(cond, SVec):
            raise EngineError('np.where')
        return (GList([(c, i) for i, c in enumerate(cond.slots) if c is not False]),)


# ------------------------------------------------------------------------------------------------
# random (assumed contracts: choice returns an element, shuffle permutes)


@model(random.shuffle)
def _shuffle(it, xs):
    """Assumed contract of random.shuffle: afterwards the list is a permutation of what it was.
    Only for a list of n distinct concrete cards: position i holds the card with index idx_i, the
    idx_i are pairwise distinct members of the original list, and (a permutation is a bijection)
    every original card c has a position pos_c with  idx_i == c  <=>  pos_c == i."""
    if not isinstance(xs, SList) or not all(V.is_card(c) and not isinstance(c, SObj)
                                             for c in xs.items):
        raise EngineError('random.shuffle: only lists of concrete cards are modelled')
    codes = [V.card_index(c) for c in xs.items]
    if len(set(codes)) != len(codes):
        raise EngineError('random.shuffle: duplicate cards')
    n = len(codes)
    ctx = it.ctx
    idx = [ctx.fresh_int(f'shuf_idx{i}') for i in range(n)]
    pos = {c: ctx.fresh_int(f'shuf_pos{c}') for c in codes}
    for t in idx:
        ctx.assume_type(z3.Or([t == c for c in codes]) if codes != list(range(52))
                        else z3.And(t >= 0, t <= 51))
    for c in codes:
        ctx.assume_type(z3.And(pos[c] >= 0, pos[c] < n))
    ctx.assume_type(z3.Distinct(idx))
    for i in range(n):
        for c in codes:
            ctx.assume_type((idx[i] == c) == (pos[c] == i))
    from .dsl import CardElem
    ce = CardElem()
    xs.items = [ce.wrap(t) for t in idx]
    return None


@model(random.choice)
def _choice(it, xs):
    I = _I()
    items = it.iterate_guarded(xs)
    if not items:
        raise I.PyRaise(IndexError, ('Cannot choose from an empty sequence',))
    nonempty = b_or(*[g for g, _ in items])
    if not it.ctx.decide(nonempty):
        raise I.PyRaise(IndexError, ('Cannot choose from an empty sequence',))
    k = it.ctx.fresh_int('choice')
    sel = mk_int(k)
    # k selects a present element
    it.ctx.assume(b_or(*[b_and(g, mk_bool(k == i)) for i, (g, _) in enumerate(items)]))
    acc = items[-1][1]
    try:
        for i in range(len(items) - 2, -1, -1):
            acc = V.merge(z3.simplify(k == i), items[i][1], acc)
        return acc
    except CannotMerge:
        j = it.ctx.decide_among(k, list(range(len(items))))
        return items[j][1]

"""Loop rules: concrete unrolling, guarded iteration over card sets, invariants (DESIGN 2.6)."""
from __future__ import annotations

import ast

import z3

from . import values as V
from .ctx import PathEnd
from .values import (BT, T, EngineError, GList, SCardSet, SSeq, SInt, mk_bool, mk_int, b_and,
                     b_not)


def _I():
    from . import interp
    return interp


MAX_UNROLL = 5000


def loop_contract(it, fr, node):
    """Find the loop contract for this loop node: keyed by (function, ordinal in source order)."""
    fn = getattr(fr, 'fn', None)
    fdef = getattr(fr, 'fdef', None)
    if fn is None or fdef is None or it.registry is None or getattr(it, 'inline_all', 0):
        return None, None
    loops = [n for n in ast.walk(fdef) if isinstance(n, (ast.While, ast.For))]
    loops.sort(key=lambda n: (n.lineno, n.col_offset))
    k = loops.index(node) if node in loops else None
    ov = getattr(it, 'loops_override', None)
    if ov is not None and ov[0] is fn and k is not None:
        return ov[1].get(k), k
    c = it.registry.lookup(fn)
    if c is None or k is None:
        return None, k
    return c.loops.get(k), k


def exec_while(it, node, fr):
    I = _I()
    if node.orelse:
        raise EngineError('while-else')
    lc, k = loop_contract(it, fr, node)
    if lc is not None and lc.invariant is not None:
        return while_with_invariant(it, node, fr, lc, k)
    n = 0
    while True:
        c = it.truth(it.ev(node.test, fr))
        if not isinstance(c, bool):
            if lc is not None and lc.unroll is not None:
                # bounded unrolling with an unwinding assertion
                if n >= lc.unroll:
                    it.ctx.oblige(f'{fr.name}/loop{k}.unwind', b_not(c), where=fr.name)
                    it.ctx.assume(b_not(c))
                    return
                if not it.ctx.decide(c):
                    return
            else:
                raise EngineError(f'{fr.name}: while loop with symbolic condition needs a loop '
                                  f'contract (loop {k})')
        elif not c:
            return
        n += 1
        if n > MAX_UNROLL:
            raise EngineError('loop unroll limit')
        try:
            it.ex_block(node.body, fr)
        except I.BreakSig:
            return
        except I.ContinueSig:
            continue


def run_clause(it, fn, fr, extra=None):
    I = _I()
    try:
        return _run_clause(it, fn, fr, extra)
    except I.PyRaise as e:
        raise EngineError(f'a loop-contract clause ({fn.__name__}) raised {e}')


def _run_clause(it, fn, fr, extra=None):
    import inspect
    ns = {}
    for p in inspect.signature(fn).parameters:
        if extra and p in extra:
            ns[p] = extra[p]
        else:
            f = fr
            v = V.UNBOUND
            while f is not None and v is V.UNBOUND:
                v = f.locals.get(p, V.UNBOUND)
                f = f.parent
            if v is V.UNBOUND and p not in fr.globals or v is V.LOOP_UNKNOWN:
                ns[p] = None         # a local not assigned on this path: the clause sees None
            else:
                ns[p] = it.lookup_name(p, fr)
    return it.run_body(fn, ns)


def havoc_locals(it, fr, node, lc, tag):
    names = sorted(V_assigned(node.body) | V_assigned([node.target] if hasattr(node, 'target') else []))
    for nme in names:
        if nme not in fr.locals:
            continue
        shp = lc.havoc.get(nme)
        if shp is None:
            # no shape given: the local counts as unassigned at the loop head (every iteration must
            # assign it before reading it; reading it first is an engine error, not a guess)
            fr.locals[nme] = V.LOOP_UNKNOWN
            continue
        fr.locals[nme] = shp.fresh(it.ctx, f'{tag}_{nme}')
    for pname, shp in lc.havoc_heap.items():
        obj = it.lookup_name(pname.split('.')[0], fr)
        for part in pname.split('.')[1:]:
            obj = it.getattr(obj, part)
        shp.havoc(it.ctx, obj, f'{tag}_{pname}')


def V_assigned(stmts):
    I = _I()
    return I.assigned_names(stmts)


def check_body_ensures(it, fr, lc, tag, extra):
    """Per-iteration postconditions (LoopContract.body_ensures): what one iteration does, stated
    over the locals at its end and the `entry` snapshot taken at its start."""
    for name, fn in (lc.body_ensures or {}).items():
        it.ctx.oblige(f'{tag}.body/{name}', it.truth(run_clause(it, fn, fr, extra)), where=fr.name)


def while_with_invariant(it, node, fr, lc, k):
    I = _I()
    ctx = it.ctx
    tag = f'{fr.name}{getattr(it, "obl_suffix", "") if getattr(it, "loops_override", None) and it.loops_override[0] is getattr(fr, "fn", None) else ""}/loop{k}'
    extra = {}
    if lc.entry_snapshot:
        extra['entry'] = it.models_mod._deepcopy(it, V.SObj(object, dict(fr.locals), frozen=True))
    ctx.oblige(f'{tag}.init', it.truth(run_clause(it, lc.invariant, fr, extra)), where=fr.name)
    choice = ctx.choose(2, tag)
    havoc_locals(it, fr, node, lc, f'L{k}')
    ctx.assume(it.truth(run_clause(it, lc.invariant, fr, extra)))
    if choice == 0:
        # arbitrary iteration
        c = it.truth(it.ev(node.test, fr))
        ctx.assume(c)
        if ctx.sat_now() == z3.unsat:
            raise PathEnd('loop body verified')      # invariant and condition exclude each other
        v0 = run_clause(it, lc.variant, fr, extra) if lc.variant is not None else None
        if lc.body_ensures:
            extra = dict(extra)
            extra['iter'] = it.models_mod._deepcopy(it, V.SObj(object, dict(fr.locals), frozen=True))
            extra['iter'].fields['__calls__'] = len(it.__dict__.get('call_log', ()))
        try:
            it.ex_block(node.body, fr)
        except I.BreakSig:
            return  # leaves the loop with the current state
        except I.ContinueSig:
            pass
        check_body_ensures(it, fr, lc, tag, extra)
        ctx.oblige(f'{tag}.preserve', it.truth(run_clause(it, lc.invariant, fr, extra)),
                   where=fr.name)
        if lc.variant is not None:
            v1 = run_clause(it, lc.variant, fr, extra)
            ctx.oblige(f'{tag}.variant', b_and(it.compare(ast.Lt(), v1, v0),
                                               it.compare(ast.GtE(), v0, 0)), where=fr.name)
        raise PathEnd('loop body verified')
    else:
        c = it.truth(it.ev(node.test, fr))
        ctx.assume(b_not(c))
        return


def exec_for(it, node, fr):
    I = _I()
    if node.orelse:
        raise EngineError('for-else')
    lc, k = loop_contract(it, fr, node)
    itv = None
    if lc is not None and lc.unroll is not None and isinstance(node.iter, ast.Call) and \
            isinstance(node.iter.func, ast.Name) and node.iter.func.id == 'range' and \
            len(node.iter.args) == 1 and not node.iter.keywords:
        hi = it.ev(node.iter.args[0], fr)
        if isinstance(hi, SInt):
            # range(<symbolic>) unrolled lc.unroll times; unwinding assertion: hi <= unroll
            it.ctx.oblige(f'{fr.name}/loop{k}.unwind', it.compare(ast.LtE(), hi, lc.unroll),
                          where=fr.name)
            it.ctx.assume(it.compare(ast.LtE(), hi, lc.unroll))
            itv = GList([(it.compare(ast.Lt(), i, hi), i) for i in range(lc.unroll)])
        else:
            itv = range(hi)
    if itv is None:
        itv = it.ev(node.iter, fr)
    from .models import EnumSeq, SRange
    if isinstance(itv, (SSeq, EnumSeq, SRange)) or (lc is not None and lc.invariant is not None):
        return for_with_invariant(it, node, fr, itv, lc, k)
    items = it.iterate_guarded(itv)
    for g, x in items:
        if g is True:
            it.assign(node.target, x, fr)
            try:
                it.ex_block(node.body, fr)
            except I.BreakSig:
                return
            except I.ContinueSig:
                continue
        else:
            # guarded iteration: body under guard, merged (order-independent bodies only).  The
            # loop target is bound unconditionally (its value after a loop over a set is
            # unspecified in Python anyway); otherwise the two branches could not be merged.
            it.assign(node.target, x, fr)

            def body(x=x):
                try:
                    it.ex_block(node.body, fr)
                except I.ContinueSig:
                    pass
            ok, _ = it.merged_branches(g, body, lambda: None, False)
            if not ok:
                if it.ctx.decide(g):
                    try:
                        body()
                    except I.BreakSig:
                        return


def for_with_invariant(it, node, fr, seq, lc, k):
    """for x in <sequence of symbolic length>: body   with invariant over (idx, locals)."""
    I = _I()
    ctx = it.ctx
    if lc is None or lc.invariant is None:
        raise EngineError(f'{fr.name}: for loop over a symbolic-length list needs a loop contract '
                          f'(loop {k})')
    tag = f'{fr.name}{getattr(it, "obl_suffix", "") if getattr(it, "loops_override", None) and it.loops_override[0] is getattr(fr, "fn", None) else ""}/loop{k}'
    from .models import EnumSeq, SRange
    enum_start = None
    if isinstance(seq, EnumSeq):
        enum_start = seq.start
        seq = seq.seq
    if isinstance(seq, range):
        seq = SRange(seq.start, seq.stop, seq.step)
    if isinstance(seq, SRange):
        n = seq.length(it)
    else:
        n = it.models_mod.py_len(it, seq)
    extra = {'idx': 0, 'seq': seq}
    ctx.oblige(f'{tag}.init', it.truth(run_clause(it, lc.invariant, fr, extra)), where=fr.name)
    choice = ctx.choose(2, tag)
    havoc_locals(it, fr, node, lc, f'L{k}')
    if choice == 0:
        i = mk_int(ctx.fresh_int(f'L{k}_idx'))
        ctx.assume(b_and(it.compare(ast.LtE(), 0, i), it.compare(ast.Lt(), i, n)))
        extra['idx'] = i
        ctx.assume(it.truth(run_clause(it, lc.invariant, fr, extra)))
        x = seq.at(it, i) if isinstance(seq, SRange) else it.getitem(seq, i)
        if enum_start is not None:
            x = (it.binop(ast.Add(), i, enum_start), x)
        it.assign(node.target, x, fr)
        if lc.body_ensures:
            extra['iter'] = it.models_mod._deepcopy(it, V.SObj(object, dict(fr.locals), frozen=True))
            extra['iter'].fields['__calls__'] = len(it.__dict__.get('call_log', ()))
        try:
            it.ex_block(node.body, fr)
        except I.BreakSig:
            return
        except I.ContinueSig:
            pass
        check_body_ensures(it, fr, lc, tag, extra)
        extra['idx'] = it.binop(ast.Add(), i, 1)
        ctx.oblige(f'{tag}.preserve', it.truth(run_clause(it, lc.invariant, fr, extra)),
                   where=fr.name)
        raise PathEnd('loop body verified')
    else:
        extra['idx'] = n
        ctx.assume(it.truth(run_clause(it, lc.invariant, fr, extra)))
        # Python leaves the loop variable at the last element: known when the length is concrete
        if isinstance(n, int) and n >= 1 and enum_start is None:
            try:
                x = seq.at(it, n - 1) if isinstance(seq, SRange) else it.getitem(seq, n - 1)
                it.assign(node.target, x, fr)
            except Exception:
                pass
        if getattr(lc, 'exit_snapshot', False):
            fr.locals[f'__after_loop{k}__'] = it.models_mod._deepcopy(
                it, V.SObj(object, dict(fr.locals), frozen=True))
        return


def exec_with(it, node, fr):
    I = _I()
    mgrs = []
    for item in node.items:
        m = it.ev(item.context_expr, fr)
        enter = it.getattr(m, '__enter__')
        v = it.call(enter, [], {})
        if item.optional_vars is not None:
            it.assign(item.optional_vars, v, fr)
        mgrs.append(m)
    try:
        it.ex_block(node.body, fr)
    except I.PyRaise as e:
        for m in reversed(mgrs):
            ex = it.getattr(m, '__exit__')
            r = it.call(ex, [e.cls, I.ExcValue(e.cls, list(e.eargs)), None], {})
            if it.decide(r):
                return
        raise
    except (I.ReturnSig, I.BreakSig, I.ContinueSig):
        for m in reversed(mgrs):
            it.call(it.getattr(m, '__exit__'), [None, None, None], {})
        raise
    for m in reversed(mgrs):
        it.call(it.getattr(m, '__exit__'), [None, None, None], {})

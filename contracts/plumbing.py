"""Constructors and connection plumbing that the session-level properties silently depend on.

The class contracts of Server / Client (contracts/server_main.py, contracts/client.py) promise a
shape: one queue per seat and direction, one event per seat, all pairwise distinct objects; a
client whose message interface talks through the very socket that `connect_socket` connects.  The
functions below are where those promises are established, so they are verified units too:
`Server.__init__` (the twelve channel objects are fresh, distinct and empty -- the `/separation`
obligation -- the configured boards and the output path are stored unchanged, only `.json` is
accepted), `SocketInterface.__init__/__enter__/__exit__/get_socket`, `Client.__init__`,
`Client.__enter__`.
"""
import pathlib

from bridge_env import Player
from bridge_env.network_bridge.bidding_system import WeakBid
from bridge_env.network_bridge.client import Client
from bridge_env.network_bridge.playing_system import RandomPlay
from bridge_env.network_bridge.server import Server
from bridge_env.network_bridge.socket_interface import SocketInterface
from pyvc.dsl import Const, Enum, Ext, Obj, OneOf, Opt, Text, contract, klass
from pyvc.speclib import conj, forall, same
from contracts.server_main import BoardListShape

P = ['C08', 'C10', 'C13']


@contract('bridge_env.network_bridge.server.Server.__init__', props=P)
class _server_init:
    params = dict(ip_address=Const('localhost'), port=Const(2000),
                  output_file_path=OneOf([pathlib.PurePosixPath('out.json'),
                                         pathlib.PurePosixPath('log.pbn'),
                                         pathlib.PurePosixPath('out')]),
                  board_settings=Opt(BoardListShape))
    raises = {NotImplementedError: 'iff'}
    check_fields = ['_socket']          # created by SocketInterface.__enter__
    note = ('C08/C10/C13 rest on per-seat channels that are distinct objects (separation '
            'obligation) and empty at the start, and on the configured boards / output path being '
            'the ones handed in')

    def raises_NotImplementedError(output_file_path):
        return output_file_path.suffix != '.json'

    def ensures_fresh_channels_and_configuration_kept(self, ip_address, port, output_file_path,
                                                       board_settings):
        return conj(
            forall(Player, lambda p: conj(
                len(self.sent_message_queues[p].out) == 0,
                len(self.sent_message_queues[p].gets) == 0,
                len(self.received_message_queues[p].out) == 0,
                len(self.received_message_queues[p].gets) == 0)),
            self.board_settings is board_settings,
            self.output_file_path is output_file_path,
            self.ip_address == ip_address, self.port == port)


# ---- sockets: creation, hand-over to the message interface, closing -------------------------------

from pyvc.dsl import transparent
from contracts.client import FreshClientShape

PC = ['C11', 'C20']

transparent('bridge_env.network_bridge.socket_interface.SocketInterface.__init__', props=P + PC)

SIShape = Obj(SocketInterface, dict(ip_address=Const('localhost'), port=Const(2000)))
from pyvc.dsl import Bool, Int, IntElem, Seq, TraceList
SIOpenShape = Obj(SocketInterface, dict(
    ip_address=Const('localhost'), port=Const(2000),
    _socket=Ext('socket', dict(data=Seq(IntElem()), pos=Int(0), sent=TraceList(),
                               closed=Const(False), connected=Bool()))))


def _fresh_socket(s):
    return conj(not s.connected, not s.closed, len(s.sent) == 0, s.pos == 0)


@contract('bridge_env.network_bridge.socket_interface.SocketInterface.__enter__', props=P + PC)
class _si_enter:
    params = dict(self=SIShape)
    modifies = ['self']
    at_calls = 'inline'          # the new socket is then handed on by reference
    note = 'the with-statement hands back the object itself, holding a fresh unconnected socket'

    def ensures_fresh_socket(self, result, old):
        return conj(result is self, _fresh_socket(self._socket),
                    self.ip_address == old.self.ip_address, self.port == old.self.port)


@contract('bridge_env.network_bridge.socket_interface.SocketInterface.__exit__', props=P + PC)
class _si_exit:
    params = dict(self=SIOpenShape, exc_type=Const(None), exc_val=Const(None), exc_tb=Const(None))
    modifies = ['self._socket']

    def ensures_socket_closed_and_exception_not_swallowed(self, result):
        return conj(self._socket.closed, result is None)


@contract('bridge_env.network_bridge.socket_interface.SocketInterface.get_socket', props=P + PC)
class _si_get:
    params = dict(self=SIOpenShape)
    at_calls = 'inline'          # returns an alias of a field

    def ensures_the_socket_in_use(self, result):
        return result is self._socket


@contract('bridge_env.network_bridge.client.Client.__init__', props=PC)
class _client_init:
    params = dict(player=Enum(Player), team_name=Text(), bidding_system=Obj(WeakBid, {}),
                  playing_system=Obj(RandomPlay, {}), ip_address=Const('localhost'),
                  port=Const(2000))
    check_inv = False            # no connection yet: the invariant speaks about the connection
    # the socket fields are assigned by __enter__, the board by _deal
    check_fields = ['connection_socket', '_socket', 'board_num', 'dealer', 'vul', 'hand_set',
                    'hand_binary']

    def ensures_configuration_kept(self, player, team_name, bidding_system, playing_system,
                                   ip_address, port):
        return conj(self.player is player, self.team_name == team_name,
                    self.bidding_system is bidding_system, self.playing_system is playing_system,
                    self.ip_address == ip_address, self.port == port,
                    self.opponent_team_name is None)


ClientBeforeEnter = Obj(Client, dict(
    ip_address=Const('localhost'), port=Const(2000), player=Enum(Player), team_name=Text(),
    bidding_system=Obj(WeakBid, {}), playing_system=Obj(RandomPlay, {}),
    opponent_team_name=Opt(Text())))


@contract('bridge_env.network_bridge.client.Client.__enter__', props=PC)
class _client_enter:
    params = dict(self=ClientBeforeEnter)
    modifies = ['self']
    check_inv = False
    assume_inv = False           # no connection yet
    note = ('C11/C20: the message interface of the client is bound to the socket that '
            'connect_socket() will connect -- one object, fresh, not yet connected')

    def ensures_messages_go_through_the_socket_to_be_connected(self, result, old):
        return conj(result is self, self.connection_socket is self._socket,
                    _fresh_socket(self._socket),
                    self.player is old.self.player, self.team_name == old.self.team_name,
                    self.opponent_team_name is None or
                    same(self.opponent_team_name, old.self.opponent_team_name))


# ---- small functions that were outside every unit ---------------------------------------------------

from bridge_env import Bid
from bridge_env.network_bridge.bidding_system import AlwaysPass
from bridge_env.playing_phase import PlayingHistory
from contracts.bidding import BPShape, inv as _bp_inv, is_legal_now as _legal, over as _bp_over
from pyvc.dsl import Tuple as _Tuple


@contract('bridge_env.network_bridge.bidding_system.AlwaysPass.bid', props=['C11'])
class _always_pass:
    params = dict(self=Obj(AlwaysPass, {}), hand=_Tuple(*[Int(0, 1) for _ in range(52)]),
                  bidding_phase=BPShape)
    returns = Enum(Bid)
    modifies = []

    def requires_auction_in_progress(bidding_phase):
        return conj(_bp_inv(bidding_phase), not _bp_over(bidding_phase))

    # the other bundled policy: always the one call that is legal in every position
    def ensures_a_legal_call(bidding_phase, result):
        return conj(result is Bid.Pass, _legal(bidding_phase, result))


@contract('bridge_env.playing_phase.PlayingHistory.contract', props=['C04', 'C08'])
class _history_contract:
    modifies = []

    def ensures_the_contract_played(self, result):
        return result is self._contract

"""C14 (PBN part): Hands.to_pbn / convert_pbn and their helpers against the PBN deal notation."""
import z3

from bridge_env import Card, Hands, Player, Suit
from pyvc.dsl import (CardSet, Enum, Obj, OneOf, Shape, contract, lemma, transparent)
from pyvc.speclib import conj, disj, forall, implies, same
from pyvc import strings as XS
from pyvc import values as V
import spec.pbn as PBN
import spec.table as G
from contracts.playing import HandsShape

P = ['C14', 'C17', 'C18']
N, E, S, W = Player.N, Player.E, Player.S, Player.W


def full_or_unknown(h):
    """Each hand is a complete 13-card hand or unknown (empty): the domain of the PBN deal tag."""
    return conj(disj(len(h.north) == 0, len(h.north) == 13),
                disj(len(h.east) == 0, len(h.east) == 13),
                disj(len(h.south) == 0, len(h.south) == 13),
                disj(len(h.west) == 0, len(h.west) == 13))


def _hand_segs(ctx, name):
    """Canonical text of a fresh 13-card hand: 4 fields of guarded rank characters."""
    gs = {}
    segs = []
    for k, s in enumerate(PBN.SUITS_PBN):
        if k:
            segs.append((True, '.'))
        for r in PBN.RANKS_HIGH_TO_LOW:
            g = ctx.fresh_bool(f'{name}_{G.SUIT_TEXT[s]}{G.RANK_TEXT[r]}')
            gs[(r, s)] = g
            segs.append((g, G.RANK_TEXT[r]))
    ctx.assume_type(z3.Sum([z3.If(g, 1, 0) for g in gs.values()]) == 13)
    return segs


class PbnHandText(Shape):
    """Any canonical PBN hand text: '-' or the text of some 13-card hand."""

    def sample(self, rng):
        if rng.random() < 0.2:
            return '-'
        cards = set(Card.int_to_card(i) for i in rng.sample(range(52), 13))
        return PBN.hand_text(cards)

    def fresh(self, ctx, name):
        k = ctx.fresh_int(name + '_known')
        ctx.assume_type(z3.And(k >= 0, k <= 1))
        if ctx.decide_among(k, [0, 1]) == 0:
            return '-'
        return XS.XStr(_hand_segs(ctx, name))


class PbnDealText(Shape):
    """Any canonical PBN deal text: a first seat and four canonical hand texts."""

    def sample(self, rng):
        h = Hands.generate_random_hands()
        for p in Player:
            if rng.random() < 0.15:
                h[p].clear()
        return PBN.deal_text(h, rng.choice(list(Player)))

    def fresh(self, ctx, name):
        f = ctx.fresh_int(name + '_first')
        ctx.assume_type(z3.And(f >= 0, f <= 3))
        first = 'NESW'[ctx.decide_among(f, [0, 1, 2, 3])]
        segs = [(True, first + ':')]
        for k in range(4):
            if k:
                segs.append((True, ' '))
            kn = ctx.fresh_int(f'{name}_known{k}')
            ctx.assume_type(z3.And(kn >= 0, kn <= 1))
            if ctx.decide_among(kn, [0, 1]) == 0:
                segs.append((True, '-'))
            else:
                segs.extend(_hand_segs(ctx, f'{name}_h{k}'))
        return XS.XStr(segs)


@contract('bridge_env.hands.Hands._convert_hand_to_pbn', props=P)
class _enc_hand:
    params = dict(hand=CardSet())
    raises = {AssertionError: 'iff'}
    modifies = []

    def raises_AssertionError(hand):
        return len(hand) != 0 and len(hand) != 13

    # canonical form: spades.hearts.diamonds.clubs, ranks high to low, void = empty field,
    # unknown hand = '-'
    def result(hand):
        return PBN.hand_text(hand)


@contract('bridge_env.hands.Hands.to_pbn', props=P)
class _enc_deal:
    params = dict(dealer=OneOf(list(Player)))
    modifies = []

    def requires_full_or_unknown_hands(self):
        return full_or_unknown(self)

    def result(self, dealer):
        return PBN.deal_text(self, dealer)


@contract('bridge_env.hands.Hands._hand_parser', props=P)
class _dec_hand:
    params = dict(pbn_hand=PbnHandText())
    returns = CardSet()
    modifies = []

    def requires_canonical(pbn_hand):
        return PBN.hand_text(PBN.parse_hand(pbn_hand)) == pbn_hand

    def ensures_the_cards_written(pbn_hand, result):
        return result == PBN.parse_hand(pbn_hand)


@contract('bridge_env.hands.Hands.convert_pbn', props=P)
class _dec_deal:
    params = dict(cls=OneOf([Hands]), pbn_hands=PbnDealText())
    returns = HandsShape
    modifies = []

    def ensures_the_deal_written(pbn_hands, result):
        d = PBN.parse_deal(pbn_hands)
        return conj(result.north == d[N], result.east == d[E], result.south == d[S],
                    result.west == d[W])


@lemma('C14-pbn-notation-is-injective', props=P)
class _:
    params = dict(h=HandsShape, first=OneOf(list(Player)))
    note = 'spec level: reading the canonical text of a deal gives back the deal'

    def requires_domain(h):
        return full_or_unknown(h)

    def ensures_read_back(h, first):
        d = PBN.parse_deal(PBN.deal_text(h, first))
        return conj(d[N] == h.north, d[E] == h.east, d[S] == h.south, d[W] == h.west)


@lemma('C14-pbn-round-trip', props=P)
class _:
    params = dict(h=HandsShape, first=OneOf(list(Player)))
    note = 'for every deal of complete / unknown hands and every first seat, through the contracts'

    def requires_domain(h):
        return full_or_unknown(h)

    def ensures_round_trip(h, first):
        return Hands.convert_pbn(h.to_pbn(first)) == h

"""C20 (admission) and C10 (seat-thread layer): bridge_env.network_bridge.server.PlayerThread.

A seat thread is sequential code between three kinds of channels: its client's socket (ghost byte
stream in, texts out), its two queues to the main thread, and the shared seat table / barrier.
What other threads do is visible only through assumed contracts: Queue.get() delivers what the main
thread put (C10 main-thread layer), and the barrier `_sync_event` returns only after the main
thread released it -- by then all four seats are taken and partners share a name (ASSUMED, listed).
"""
from bridge_env import Player
from bridge_env.network_bridge.server import PlayerThread, Server
from pyvc.dsl import (Alias, Bool, Const, DecodedStr, Dict, Enum, Ext, Int, IntElem, Obj, OneOf, Opt,
                      Seq, Text, TraceList, TraceReset, Tuple, contract, klass, lemma, transparent,
                      LoopContract)
from pyvc.speclib import (call_arg, calls_since, conj, disj, forall, iff, implies, ite, opt_or, same, sock_sent,
                          starts_with)
import spec.protocol as PR
import spec.table as G
from contracts.framing import SocketShape
from contracts.protocol import NAME_EXCL
from contracts.server_main import EventShape, QueueShape, QueueReset

P = ['C20', 'C10']
N, E, S, W = Player.N, Player.E, Player.S, Player.W
M = Server.Message

# (the operator's interrupt reaches the main thread only)
SeatQueue = Ext('queue', dict(out=TraceList(), gets=TraceList(), interruptible=Const(False)))
SeatTable = Dict({p: Opt(Text(excl=NAME_EXCL)) for p in Player})
PTShape = Obj(PlayerThread, dict(
    connection_socket=SocketShape, connection=Alias('connection_socket'),
    event_sync=EventShape, event_thread=Ext('event', dict(ops=TraceList())), team_names=SeatTable,
    _sent_message_queues=Dict({p: SeatQueue for p in Player}),
    _received_message_queues=Dict({p: SeatQueue for p in Player}),
    players_event=Dict({p: EventShape for p in Player}),
    player=Enum(Player), name=Text()))


def pt_inv(s):
    """The read cursor of the client connection lies inside the stream."""
    from pyvc.speclib import seq_len, sock_data, sock_pos
    c = s.connection_socket
    return conj(0 <= sock_pos(c), sock_pos(c) <= seq_len(sock_data(c)))


@klass('bridge_env.network_bridge.server.PlayerThread', props=P)
class _PT:
    shape = PTShape
    inv = pt_inv


transparent('bridge_env.network_bridge.server.PlayerThread.send_message_to_queue',
            'bridge_env.network_bridge.server.PlayerThread.receive_message_from_queue',
            'bridge_env.network_bridge.server.PlayerThread._handle_error', props=P)


def sent(s):
    return sock_sent(s.connection_socket)


def line(text):
    return text + '\r\n'


def valid(T):
    """Partners who are both seated share a team name."""
    return conj(disj(T[N] is None, T[S] is None, T[N] == T[S]),
                disj(T[E] is None, T[W] is None, T[E] == T[W]))


# ---- the barrier (ASSUMED: it speaks about what the other threads have done) --------------------

@contract('bridge_env.network_bridge.server.PlayerThread._sync_event', props=P)
class _barrier:
    verify = False
    modifies = ['self.team_names']
    note = ('ASSUMED (rely condition, not verified): threading.Event releases a waiter only after '
            'set(); the main thread sets the release flag only after all four seats are taken and '
            'has checked that partners share a name; seats are never cleared (stable predicate)')

    def ensures_table_complete(self, old):
        T, T0 = self.team_names, old.self.team_names
        return conj(forall(Player, lambda p: T[p] is not None), valid(T),
                    forall(Player, lambda p: implies(T0[p] is not None, same(T[p], T0[p]))))


# ---- _check_message ------------------------------------------------------------------------------

@contract('bridge_env.network_bridge.server.PlayerThread._check_message', props=P)
class _check_message:
    params = dict(expected_message=Const('North ready for teams'))
    returns = Bool()
    raises = {Exception: 'onlyif'}
    exc_havoc = True
    modifies = ['self.connection_socket']
    note = ('whether the received text matches is not decided (re.fullmatch on an unknown text): '
            'both outcomes are followed')

    # an unexpected message is answered with an error line and the connection is closed;
    # an expected one produces no output
    def ensures_error_reply_iff_unexpected(self, old, result):
        return ite(result, sent(self) == sent(old.self),
                   conj(sent(self) == sent(old.self) + [line('ERROR: Unexpected message received.')],
                        self.connection_socket.closed))


CM = PlayerThread._check_message


def asked(iter, k):
    """The text the seat thread expects from its client in the k-th readiness check of this
    activation / iteration (what `_check_message` is called with)."""
    return call_arg(iter, CM, k, 'expected_message')


# ---- admission (C20) -----------------------------------------------------------------------------

@contract('bridge_env.network_bridge.server.PlayerThread._connect', props=P)
class _connect:
    returns = Bool()
    raises = {Exception: 'onlyif'}
    exc_havoc = True
    modifies = ['self.connection_socket', 'self.team_names', 'self.player', 'self.name',
                'self.event_thread.ops']
    note = ('the request is whatever parse_connection_info returns for the first message (its '
            'contract: C19); raises only for a malformed request or a closed connection')

    # C20: wrong protocol version, seat already taken, or a team name different from the seated
    # partner's: exactly one line is sent, an ERROR line; the connection is closed; the seat table
    # is NOT touched; the request is refused
    def ensures_bad_request_is_turned_away(self, old, result, frame):
        T0, seat, team, ver = old.self.team_names, self.player, frame.team_name, \
            frame.protocol_version
        partner_name = T0[G.partner(seat)]
        bad = disj(ver != 18, T0[seat] is not None,
                   conj(partner_name is not None, opt_or(partner_name, '') != team))
        one_error_line = (len(sent(self)) == len(sent(old.self)) + 1) and \
            starts_with(sent(self)[-1], 'ERROR: ')
        return implies(bad, conj(not result, same(self.team_names, T0),
                                 self.connection_socket.closed, one_error_line))

    # C20 ("... and the server keeps accepting"), safety half: whatever the decision -- refused,
    # or seated -- the main thread, which waits for this verdict before it accepts the next
    # connection, is released exactly once
    def ensures_main_thread_released_once(self, old):
        return self.event_thread.ops == old.self.event_thread.ops + ['set']

    # otherwise the seat is given to this client (and to nobody else: it was free), the other
    # seats are not touched by this thread, and "<Seat> <team> seated" is the first reply
    def ensures_good_request_is_seated(self, old, result, frame):
        T0, seat, team, ver = old.self.team_names, self.player, frame.team_name, \
            frame.protocol_version
        partner_name = T0[G.partner(seat)]
        bad = disj(ver != 18, T0[seat] is not None,
                   conj(partner_name is not None, opt_or(partner_name, '') != team))
        first = sent(self)[len(sent(old.self))] if len(sent(self)) > len(sent(old.self)) else None
        return implies(not bad, conj(
            self.team_names[seat] is not None, opt_or(self.team_names[seat], '') == team,
            first == line(G.FORMAL[seat] + ' ' + team + ' seated'),
            implies(valid(T0), valid(self.team_names))))

    # the two readiness messages of the handshake are the protocol's (and the bundled client's)
    def ensures_waits_for_the_protocol_texts(self, result, frame):
        n = calls_since(None, CM)
        me = G.FORMAL[self.player]
        return conj(n <= 2, n < 1 or asked(None, 0) == me + ' ready for teams',
                    n < 2 or asked(None, 1) == me + ' ready to start', implies(result, n == 2))

    # a client that is admitted is told both team names as they stand in the seat table
    def ensures_admitted_client_is_told_both_teams(self, result):
        T = self.team_names
        last = sent(self)[-1] if len(sent(self)) > 0 else None
        return implies(result, conj(
            forall(Player, lambda p: T[p] is not None), valid(T),
            last == line(PR.enc_teams(opt_or(T[N], ''), opt_or(T[E], '')))))


# ---- C10, seat layer: what a seat thread sends to its own client -------------------------------

from pyvc.dsl import TraceReset as _TR

SEAT_RESET = {'self.connection_socket': Ext('socket', dict(pos=Int(0), sent=_TR(), closed=Bool())),
              'self._sent_message_queues': Dict({p: QueueReset for p in Player}),
              'self._received_message_queues': Dict({p: QueueReset for p in Player})}


def from_main(s):
    """Messages this seat thread has taken from the main thread (since the last havoc point)."""
    return s._received_message_queues[s.player].gets


def to_main(s):
    return s._sent_message_queues[s.player].out


def my_name(s):
    return G.FORMAL[s.player]


@contract('bridge_env.network_bridge.server.PlayerThread._deal', props=['C10'])
class _seat_deal:
    returns = Bool()
    raises = {Exception: 'onlyif'}
    exc_havoc = True
    modifies = ['self.connection_socket', 'self._received_message_queues', 'self.team_names']

    # C10: on success exactly the two messages taken from the main thread -- board header, then
    # this seat's own cards -- are sent on, in that order, and nothing else
    def ensures_header_then_cards_forwarded(self, old, result):
        g = from_main(self)
        return implies(result, conj(len(g) == len(from_main(old.self)) + 2,
                                    sent(self) == sent(old.self) + [line(g[-2]), line(g[-1])]))

    # ... and the client is expected to say exactly what the protocol (and the bundled client:
    # C11) says: "<Seat> ready for deal", then "<Seat> ready for cards"
    def ensures_waits_for_the_protocol_texts(self, result, frame):
        n = calls_since(None, CM)
        me = my_name(self)
        return conj(1 <= n, n <= 2, asked(None, 0) == me + ' ready for deal',
                    n < 2 or asked(None, 1) == me + ' ready for cards',
                    implies(result, n == 2))


def _seat_bid_inv(self):
    return pt_inv(self)


def _seat_bid_step(self, iter, message):
    """C10: when the announced seat is this one, the client's call goes to the main thread and
    nothing is sent to the client; otherwise exactly the relayed call (the next item from the main
    thread) is sent to the client -- or an error line if the client was not ready."""
    mine = message == my_name(self)
    g = from_main(self)
    s = sent(self)
    relayed = (len(g) != 2) or (len(to_main(self)) == 0 and len(s) >= 1 and s[-1] == line(g[1]))
    n = calls_since(iter, CM)
    return conj(implies(mine, conj(len(s) == 0, len(to_main(self)) == 1, len(g) == 1, n == 0)),
                implies(not mine, relayed),
                # another seat's call: the client must first say "<Seat> ready for <seat on turn>'s bid"
                n == 0 or conj(n == 1, not mine,
                               asked(iter, 0) == my_name(self) + ' ready for ' + message + "'s bid"))


@contract('bridge_env.network_bridge.server.PlayerThread._bidding_phase', props=['C10'])
class _seat_bidding:
    returns = Bool()
    raises = {Exception: 'onlyif', ValueError: 'onlyif'}
    exc_havoc = True
    modifies = ['self.connection_socket', 'self._received_message_queues',
                'self._sent_message_queues']
    loops = {0: LoopContract(invariant=_seat_bid_inv, havoc_heap=SEAT_RESET,
                             body_ensures=dict(relay_step=_seat_bid_step))}

    # C10: the seat goes on to the play unless the main thread reported an illegal call / an error:
    # the auction relay ends with success exactly on the end-of-auction marker
    def ensures_success_iff_end_marker(result, frame):
        return iff(result, frame.message == M.NULL)

    # ... and it gives up only when the main thread said so (an illegal call / an error), never
    # on the announcement of a seat on turn
    def ensures_gives_up_only_when_told(result, frame):
        return implies(not result, disj(frame.message == M.ILLEGAL_BID, frame.message == M.ERROR))


def _seat_play_outer_inv(self, declarer, dummy, idx):
    return conj(pt_inv(self), dummy is G.partner(declarer))


def _seat_play_inner_inv(self, declarer, dummy, idx):
    return conj(pt_inv(self), dummy is G.partner(declarer))


def _seat_card_step(self, iter, trick_num, i, declarer, dummy):
    """C10: a lead prompt goes out only at the first card of a trick and only to the seat that
    must lead ('<Seat> to lead'), or to declarer when dummy leads ('Dummy to lead'); a seat whose
    card is awaited gets nothing else; every other seat gets exactly the relayed card; and after
    the opening lead every seat except dummy is sent one more item: dummy's cards."""
    active = iter.active_player
    me = self.player
    i_play = conj(me is active, me is not dummy)
    i_play_dummy = conj(me is declarer, active is dummy)
    opening = conj(trick_num == 1, i == 0)
    g = from_main(self)
    s = sent(self)
    expect_prompt = ite(i_play, [line(my_name(self) + ' to lead')],
                        [line('Dummy to lead')]) if i == 0 else []
    prompt_first = len(s) >= len(expect_prompt) and s[:len(expect_prompt)] == expect_prompt
    relay_last = (len(g) != 1) or (len(s) >= 1 and s[-1] == line(g[0]))
    # the opening lead: every seat but dummy then takes ONE more item from the main thread --
    # dummy's cards -- and sends it on as the last thing of this step (an error line may precede
    # it if the client did not ask for it); dummy itself gets nothing more
    disclose = conj(opening, me is not dummy)
    n_extra = ite(disclose, 1, 0)
    dummy_last = len(g) >= 1 and len(s) >= 1 and s[-1] == line(g[-1])
    relayed_first = len(g) >= 1 and ((len(s) >= 1 and s[0] == line(g[0])) or
                                     (len(s) >= 2 and s[1] == line(g[0])))
    # what the client must say before it is sent a card / dummy's cards
    n = calls_since(iter, CM)
    ready_for_card = my_name(self) + ' ready for ' + ('dummy' if active is dummy else G.FORMAL[active]) + \
        "'s card to trick " + str(trick_num)
    ready_for_dummy = my_name(self) + ' ready for dummy'
    texts = conj(
        implies(disj(i_play, i_play_dummy), n == n_extra),
        implies(conj(not i_play, not i_play_dummy), conj(n == 1 + n_extra, n < 1 or
                                                         asked(iter, 0) == ready_for_card)),
        implies(disclose, n >= 1 and asked(iter, n - 1) == ready_for_dummy))
    return conj(
        texts,
        implies(disj(i_play, i_play_dummy), conj(
            len(to_main(self)) == 1, prompt_first, len(g) == n_extra,
            implies(not disclose, len(s) == len(expect_prompt)),
            implies(disclose, dummy_last))),
        implies(conj(not i_play, not i_play_dummy), conj(
            len(to_main(self)) == 0, len(g) == 1 + n_extra,
            implies(not disclose, relay_last),
            implies(disclose, conj(relayed_first, dummy_last)))))


def _four_cards(i):
    return i == 3


@contract('bridge_env.network_bridge.server.PlayerThread._playing_phase', props=['C10'])
class _seat_playing:
    returns = Bool()
    raises = {Exception: 'onlyif', ValueError: 'onlyif'}
    exc_havoc = True
    modifies = ['self.connection_socket', 'self._received_message_queues',
                'self._sent_message_queues']
    loops = {0: LoopContract(invariant=_seat_play_outer_inv, havoc=dict(active_player=Enum(Player)),
                             havoc_heap=SEAT_RESET,
                             body_ensures=dict(four_cards_per_trick=_four_cards)),
             1: LoopContract(invariant=_seat_play_inner_inv, havoc=dict(active_player=Enum(Player)),
                             havoc_heap=SEAT_RESET,
                             body_ensures=dict(card_step=_seat_card_step))}

    # C10: the play relayed to a seat is thirteen tricks (of four cards: per-iteration clause)
    def ensures_thirteen_tricks(result, frame):
        return conj(result, frame.trick_num == 13)


def client_got(s):
    from pyvc.speclib import sock_sent
    return sock_sent(s.connection_socket)


def _seat_run_inv(self):
    return pt_inv(self)


def _board_is_played_iff_not_passed_out(iter, message, passed_out):
    """C10/C08: each pass is one board: the deal, the auction relay, and the play relay exactly
    when the auction did not end passed out (as the main thread's marker says)."""
    return conj(iff(passed_out, message == M.PASSED_OUT),
                calls_since(iter, PlayerThread._deal) == 1,
                calls_since(iter, PlayerThread._bidding_phase) == 1,
                calls_since(iter, PlayerThread._playing_phase) == ite(passed_out, 0, 1))


@contract('bridge_env.network_bridge.server.PlayerThread.run', props=['C10', 'C20'])
class _seat_run:
    raises = {Exception: 'onlyif', ValueError: 'onlyif'}
    exc_havoc = True
    modifies = ['self']

    # C20: admission is decided by _connect alone (its contract: a request that is turned away
    # leaves the seat table untouched).  Whatever the thread does after that call returned, it
    # does not write the shared seat table itself: the players already seated are not disturbed.
    # (Stated for a connection that was not admitted: the thread then ends at once.  For an
    # admitted one the barriers are points where, in this sequential model, other threads may
    # have written the table -- the assumed contract of _sync_event.)
    def ensures_seat_table_written_by_the_admission_only(self):
        from pyvc.speclib import call_result, call_self_after
        admitted = call_result(None, PlayerThread._connect, 0)
        after_admission = call_self_after(None, PlayerThread._connect, 0)
        return implies(not admitted, forall(Player, lambda p: same(
            self.team_names[p], after_admission.team_names[p])))

    # C10 (what a seat is entitled to includes the end of the session; the bundled client stops
    # only there: C11): when the main thread announces the end, the last thing the client is sent
    # is "End of session"
    def ensures_end_of_session_is_passed_on(self, frame):
        from pyvc.speclib import local_assigned
        if not local_assigned(frame, 'status_message'):
            return True
        from pyvc.speclib import call_arg
        from bridge_env.network_bridge.socket_interface import MessageInterface as _MI
        n = calls_since(None, _MI.send_message)
        if n < 1:
            return not (frame.status_message == M.END_SESSION)
        return implies(frame.status_message == M.END_SESSION,
                       call_arg(None, _MI.send_message, n - 1, 'message') == M.END_SESSION)

    loops = {0: LoopContract(invariant=_seat_run_inv,
                             havoc=dict(passed_out=Bool(), status_message=Text(), message=Text()),
                             havoc_heap=SEAT_RESET,
                             body_ensures=dict(
                                 play_iff_not_passed_out=_board_is_played_iff_not_passed_out))}

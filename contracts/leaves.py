"""Leaf contracts: every small value-object method is proved equal to a spec table / function over
its complete finite domain; callers then use these contracts (functional: the result *is* the spec
expression)."""
from bridge_env import Bid, Card, Contract, Pair, Player, Suit, Vul
from pyvc.dsl import Bool, Card as CardS, Enum, Int, Obj, OneOf, Opt, contract, lemma
from pyvc.speclib import implies, ite, seq_get
import spec.table as G

P = ['C15']

# ---- Player ------------------------------------------------------------------------------------


@contract('bridge_env.player.Player.left', props=P + ['C02', 'C04'])
class _:
    params = dict(self=Enum(Player))
    result = G.left


@contract('bridge_env.player.Player.next_player', props=P + ['C02', 'C04'])
class _:
    params = dict(self=Enum(Player))
    result = G.left


@contract('bridge_env.player.Player.right', props=P)
class _:
    params = dict(self=Enum(Player))
    result = G.right


@contract('bridge_env.player.Player.partner', props=P + ['C04'])
class _:
    params = dict(self=Enum(Player))
    result = G.partner


@contract('bridge_env.player.Player.pair', props=P + ['C01', 'C03', 'C04', 'C07'])
class _:
    params = dict(self=Enum(Player))
    result = G.side


@contract('bridge_env.player.Player.opponent_pair', props=P)
class _:
    params = dict(self=Enum(Player))

    def result(self):
        return G.other_side(G.side(self))


@contract('bridge_env.player.Player.is_partner', props=P + ['C01'])
class _:
    params = dict(self=Enum(Player), player=Enum(Player))

    def result(self, player):
        return G.same_side(self, player)


@contract('bridge_env.player.Player.is_vul', props=P + ['C07'])
class _:
    params = dict(self=Enum(Player), vul=Enum(Vul))

    def result(self, vul):
        return G.side_vulnerable(G.side(self), vul)


@contract('bridge_env.player.Player.formal_name', props=P + ['C19'])
class _:
    params = dict(self=Enum(Player))

    def result(self):
        return G.FORMAL[self]


@contract('bridge_env.player.Player.__str__', props=P)
class _:
    params = dict(self=Enum(Player))

    def result(self):
        return G.SEAT_LETTER[self]


@contract('bridge_env.player.Player.convert_formal_name', props=P + ['C19'])
class _:
    params = dict(cls=OneOf([Player]), formal_name=OneOf(['North', 'East', 'South', 'West',
                                                          'NORTH', 'north', 'N', '', 'Dummy']))
    raises = {ValueError: 'iff'}

    def raises_ValueError(formal_name):
        return formal_name not in ('North', 'East', 'South', 'West')

    def result(formal_name):
        return {'North': Player.N, 'East': Player.E, 'South': Player.S, 'West': Player.W}[formal_name]


# ---- Pair --------------------------------------------------------------------------------------


@contract('bridge_env.pair.Pair.opponent_pair', props=P + ['C08'])
class _:
    params = dict(self=Enum(Pair))
    result = G.other_side


@contract('bridge_env.pair.Pair.is_vul', props=P + ['C07'])
class _:
    params = dict(self=Enum(Pair), vul=Enum(Vul))
    result = G.side_vulnerable


@contract('bridge_env.pair.Pair.__str__', props=P)
class _:
    params = dict(self=Enum(Pair))

    def result(self):
        return {Pair.NS: 'NS', Pair.EW: 'EW'}[self]


# ---- Suit --------------------------------------------------------------------------------------


@contract('bridge_env.suit.Suit.__str__', props=P)
class _:
    params = dict(self=Enum(Suit))

    def result(self):
        return G.SUIT_TEXT[self]


@contract('bridge_env.suit.Suit.is_minor', props=P + ['C07'])
class _:
    params = dict(self=Enum(Suit))

    def result(self):
        return self is Suit.C or self is Suit.D


@contract('bridge_env.suit.Suit.is_major', props=P + ['C07'])
class _:
    params = dict(self=Enum(Suit))

    def result(self):
        return self is Suit.H or self is Suit.S


# ---- Vul ---------------------------------------------------------------------------------------


@contract('bridge_env.vul.Vul.__str__', props=P)
class _:
    params = dict(self=Enum(Vul))

    def result(self):
        return G.VUL_TEXT[self]


@contract('bridge_env.vul.Vul.pbn_format', props=P + ['C18'])
class _:
    params = dict(self=Enum(Vul))

    def result(self):
        return G.VUL_PBN[self]


@contract('bridge_env.vul.Vul.str_to_vul', props=P + ['C17'])
class _:
    params = dict(cls=OneOf([Vul]), str_vul=OneOf(['None', 'Love', '-', 'NS', 'EW', 'Both', 'All',
                                                   'none', 'N', '']))
    raises = {KeyError: 'iff'}

    def raises_KeyError(str_vul):
        return str_vul not in G.VUL_OF_TEXT

    def result(str_vul):
        return G.VUL_OF_TEXT[str_vul]


# ---- Bid ---------------------------------------------------------------------------------------


@contract('bridge_env.bid.Bid.idx', props=P + ['C01'])
class _:
    params = dict(self=Enum(Bid))
    result = G.call_index


@contract('bridge_env.bid.Bid.level', props=P + ['C07'])
class _:
    params = dict(self=Enum(Bid))
    result = G.level


@contract('bridge_env.bid.Bid.suit', props=P + ['C01', 'C03', 'C07'])
class _:
    params = dict(self=Enum(Bid))
    result = G.denom


@contract('bridge_env.bid.Bid.__str__', props=P)
class _:
    params = dict(self=Enum(Bid))
    result = G.call_text


@contract('bridge_env.bid.Bid.int_to_bid', props=P)
class _:
    params = dict(cls=OneOf([Bid]), x=Int())
    raises = {ValueError: 'iff'}

    def raises_ValueError(x):
        return x < 0 or x > 37

    def result(x):
        return seq_get(G.CALLS_IN_ORDER, x)


@contract('bridge_env.bid.Bid.level_suit_to_bid', props=P + ['C19'])
class _:
    params = dict(cls=OneOf([Bid]), level=Int(), suit=Enum(Suit))
    raises = {ValueError: 'iff'}
    note = 'level 0 passes the range test of the code and relies on Bid(v) raising'

    def raises_ValueError(level, suit):
        return level < 1 or level > 7

    def result(level, suit):
        return seq_get(G.BIDS_IN_ORDER, 5 * (level - 1) + G.SUIT_NO5[suit])


@contract('bridge_env.bid.Bid.str_to_bid', props=P + ['C12'])
class _:
    params = dict(cls=OneOf([Bid]), bid_str=OneOf([G.CALL_TEXT[c] for c in G.CALLS_IN_ORDER]))

    def result(bid_str):
        return G.CALL_OF_TEXT[bid_str]


# ---- Card --------------------------------------------------------------------------------------

def _valid_card(rank, suit):
    return 2 <= rank <= 14 and suit is not Suit.NT


@contract('bridge_env.card.Card.__post_init__', props=P + ['C14'])
class _:
    params = dict(self=Obj(Card, dict(rank=Int(), suit=Enum(Suit)), frozen=True))
    raises = {ValueError: 'iff'}
    modifies = []

    def raises_ValueError(self):
        return not (2 <= self.rank <= 14) or self.suit is Suit.NT

    def result(self):
        return None


@contract('bridge_env.card.Card.__int__', props=P + ['C14'])
class _:
    params = dict(self=CardS())

    def result(self):
        return G.card_no(self.rank, self.suit)


@contract('bridge_env.card.Card.__str__', props=P + ['C12', 'C14'])
class _:
    params = dict(self=CardS())

    def result(self):
        return G.card_text(self.rank, self.suit)


def _card_cmp(name, op):
    @contract('bridge_env.card.Card.' + name, props=P)
    class _c:
        params = dict(self=CardS(), other=CardS())
        result = op
    return _c


def _lt(self, other):
    return G.card_no(self.rank, self.suit) < G.card_no(other.rank, other.suit)


def _le(self, other):
    return G.card_no(self.rank, self.suit) <= G.card_no(other.rank, other.suit)


def _gt(self, other):
    return G.card_no(self.rank, self.suit) > G.card_no(other.rank, other.suit)


def _ge(self, other):
    return G.card_no(self.rank, self.suit) >= G.card_no(other.rank, other.suit)


_card_cmp('__lt__', _lt)
_card_cmp('__le__', _le)
_card_cmp('__gt__', _gt)
_card_cmp('__ge__', _ge)


@contract('bridge_env.card.Card.int_to_card', props=P + ['C14'])
class _:
    params = dict(cls=OneOf([Card]), x=Int())
    raises = {ValueError: 'iff'}

    def raises_ValueError(x):
        return x < 0 or x > 51

    def result(x):
        return G.card_of_no(x)


@contract('bridge_env.card.Card.rank_int_to_str', props=P + ['C14', 'C19'])
class _:
    params = dict(cls=OneOf([Card]), rank=Int())
    raises = {ValueError: 'iff'}

    def raises_ValueError(rank):
        return rank < 2 or rank > 14

    def result(rank):
        return G.RANK_TEXT[rank]


@contract('bridge_env.card.Card.rank_str_to_int', props=P + ['C14', 'C19'])
class _:
    params = dict(cls=OneOf([Card]), rank=OneOf(list('23456789TJQKA')))

    def result(rank):
        return G.RANK_OF_TEXT[rank]


@contract('bridge_env.card.Card.str_to_card', props=P + ['C12', 'C14'])
class _:
    params = dict(cls=OneOf([Card]), x=OneOf([s + r for s in 'CDHS' for r in '23456789TJQKA']))

    def result(x):
        return G.CARD_OF_TEXT[x]

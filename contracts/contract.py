"""Contracts for bridge_env.contract.Contract (frozen dataclass)."""
from bridge_env import Bid, Contract, Player, Suit, Vul
from pyvc.dsl import Bool, Enum, Int, Obj, OneOf, Opt, contract
from pyvc.speclib import implies, ite
import spec.table as G
from contracts.score import ContractS, passed_out, valid_contract

P = ['C15']


@contract('bridge_env.contract.Contract.__post_init__', props=P + ['C03'])
class _:
    params = dict(self=ContractS)
    raises = {ValueError: 'iff'}

    def raises_ValueError(self):
        return self.final_bid is Bid.X or self.final_bid is Bid.XX

    def result(self):
        return None


@contract('bridge_env.contract.Contract.is_passed_out', props=P + ['C03', 'C07'])
class _:
    params = dict(self=ContractS)
    result = passed_out


@contract('bridge_env.contract.Contract.level', props=P)
class _:
    params = dict(self=ContractS)

    def requires_valid(self):
        return valid_contract(self)

    def result(self):
        return None if passed_out(self) else G.level(self.final_bid)


@contract('bridge_env.contract.Contract.trump', props=P + ['C04'])
class _:
    params = dict(self=ContractS)

    def requires_valid(self):
        return valid_contract(self)

    def result(self):
        return None if passed_out(self) else G.denom(self.final_bid)


@contract('bridge_env.contract.Contract.necessary_tricks', props=P)
class _:
    params = dict(self=ContractS)

    def requires_valid(self):
        return valid_contract(self)

    def result(self):
        return None if passed_out(self) else G.level(self.final_bid) + 6


@contract('bridge_env.contract.Contract.is_vul', props=P + ['C07'])
class _:
    params = dict(self=ContractS)
    raises = {ValueError: 'iff'}

    def raises_ValueError(self):
        return self.declarer is None and (self.vul is Vul.NS or self.vul is Vul.EW)

    def result(self):
        return False if self.vul is Vul.NONE else (
            True if self.vul is Vul.BOTH else G.side_vulnerable(G.side(self.declarer), self.vul))

"""Contracts for bridge_env.contract.Contract (frozen dataclass)."""
from bridge_env import Bid, Contract, Player, Suit, Vul
from pyvc.dsl import Bool, Enum, Int, Obj, OneOf, Opt, contract
from pyvc.speclib import implies, ite
import spec.table as G
from contracts.score import ContractS, passed_out, valid_contract

P = ['C15']


@contract('bridge_env.contract.Contract.__post_init__', props=P + ['C03'])
class _:
    params = dict(self=ContractS)
    raises = {ValueError: 'iff'}

    def raises_ValueError(self):
        return self.final_bid is Bid.X or self.final_bid is Bid.XX

    def result(self):
        return None


@contract('bridge_env.contract.Contract.is_passed_out', props=P + ['C03', 'C07'])
class _:
    params = dict(self=ContractS)
    result = passed_out


@contract('bridge_env.contract.Contract.level', props=P)
class _:
    params = dict(self=ContractS)

    def requires_valid(self):
        return valid_contract(self)

    def result(self):
        return None if passed_out(self) else G.level(self.final_bid)


@contract('bridge_env.contract.Contract.trump', props=P + ['C04'])
class _:
    params = dict(self=ContractS)

    def requires_valid(self):
        return valid_contract(self)

    def result(self):
        return None if passed_out(self) else G.denom(self.final_bid)


@contract('bridge_env.contract.Contract.necessary_tricks', props=P)
class _:
    params = dict(self=ContractS)

    def requires_valid(self):
        return valid_contract(self)

    def result(self):
        return None if passed_out(self) else G.level(self.final_bid) + 6


@contract('bridge_env.contract.Contract.is_vul', props=P + ['C07'])
class _:
    params = dict(self=ContractS)
    raises = {ValueError: 'iff'}

    def raises_ValueError(self):
        return self.declarer is None and (self.vul is Vul.NS or self.vul is Vul.EW)

    def result(self):
        return False if self.vul is Vul.NONE else (
            True if self.vul is Vul.BOTH else G.side_vulnerable(G.side(self.declarer), self.vul))


# ---- text form (C15: a contract's text parses back to the same contract) ------------------------
import spec.jsonlog as J
from pyvc.speclib import conj
from pyvc.dsl import Shape


@contract('bridge_env.contract.Contract.__str__', props=P + ['C12', 'C18'])
class _:
    params = dict(self=ContractS)

    def requires_valid(self):
        return valid_contract(self)

    def result(self):
        return J.contract_text(self)


def _ctext(ctx, it):
    c = ContractS.fresh(ctx, 'c')
    ctx.assume(it.truth(it.run_body(valid_contract, {'c': c})))
    ctx.assume(it.truth(it.run_body(_declarer_consistent, {'c': c})))
    return dict(cls=Contract, str_contract=it.run_body(J.contract_text, {'contract': c}),
                vul=c.fields['vul'], declarer=c.fields['declarer'], ghost_c=c)


def _declarer_consistent(c):
    # the parser asserts that a passed-out contract has no declarer (as the writers produce)
    return implies(passed_out(c), c.declarer is None)


def _ctext_sample(rng):
    c = ContractS.sample(rng)
    from pyvc import native
    c = native.lower(c)
    if c.final_bid in (Bid.X, Bid.XX):
        c = Contract(None, vul=c.vul)
    if c.is_passed_out():
        c = Contract(c.final_bid, c.x, c.xx, c.vul, None)
    return dict(cls=Contract, str_contract=J.contract_text(c), vul=c.vul, declarer=c.declarer,
                ghost_c=c)


def status_of(c):
    return ite(c.xx, 2, ite(c.x, 1, 0))


@contract('bridge_env.contract.Contract.str_to_contract', props=P + ['C12'])
class _:
    fresh_params = _ctext
    sample_params = _ctext_sample
    returns = ContractS
    note = ('domain: the text of every valid contract (35 bids x undoubled/doubled/redoubled, and '
            'passed out as None or Pass) with every vulnerability and declarer')

    # same level and denomination, vulnerability, declarer, passed-out-ness and effective
    # doubling status
    def ensures_same_contract(result, ghost_c):
        return conj(passed_out(result) == passed_out(ghost_c),
                    True if passed_out(ghost_c) else conj(
                        result.final_bid is ghost_c.final_bid,
                        status_of(result) == status_of(ghost_c)),
                    result.vul is ghost_c.vul, result.declarer is ghost_c.declarer)

"""C01-C03: class invariant and method contracts of bridge_env.bidding_phase.BiddingPhase."""
import random

from bridge_env import Bid, Contract, Pair, Player, Suit, Vul
from bridge_env.bidding_phase import BiddingPhase, BiddingPhaseState
from pyvc.dsl import (Bool, Dict, Enum, EnumElem, Int, Obj, OneOf, Opt, Seq, Vec, contract, klass,
                      lemma)
from pyvc.speclib import (conj, disj, forall, forall_int, iff, implies, ite, opt_or, same,
                          seq_appended, seq_get, seq_len, vec_get)
import spec.auction as A
import spec.table as G
from contracts.score import ContractS

P123 = ['C01', 'C02', 'C03']
M = '_BiddingPhase__'

BPShape = Obj(BiddingPhase, {
    M + 'dealer': Enum(Player),
    M + 'vul': Enum(Vul),
    M + 'active_player': Opt(Enum(Player)),
    M + 'last_bidder': Opt(Enum(Player)),
    M + 'last_bid': Opt(Enum(Bid)),
    M + 'called_x': Bool(),
    M + 'called_xx': Bool(),
    M + 'bid_history': Seq(EnumElem(Bid)),
    M + 'players_bid_history': Dict({p: Seq(EnumElem(Bid)) for p in Player}),
    M + 'declarer_check': Dict({pr: Dict({s: Opt(Enum(Player)) for s in Suit}) for pr in Pair}),
    M + 'available_bid': Vec(38),
})


# ---- views of the private state (the abstraction function, field by field) ---------------------

def hist(s):
    return s._BiddingPhase__bid_history


def n_calls(s):
    return seq_len(s._BiddingPhase__bid_history)


def lb(s):
    return s._BiddingPhase__last_bid


def lbr(s):
    return s._BiddingPhase__last_bidder


def cx(s):
    return s._BiddingPhase__called_x


def cxx(s):
    return s._BiddingPhase__called_xx


def over(s):
    return s._BiddingPhase__active_player is None


def turn(s):
    """The seat whose turn it is by rotation: n calls clockwise from the dealer (C02)."""
    return G.rot(s._BiddingPhase__dealer, n_calls(s))


def share_ok(s, p):
    """Seat p's personal list is exactly its share of the common history (C02): the calls at the
    positions k = off, off+4, off+8 ... where off is p's distance clockwise from the dealer."""
    off = (G.SEAT_NO[p] - G.SEAT_NO[s._BiddingPhase__dealer]) % 4
    mine = s._BiddingPhase__players_bid_history[p]
    return conj(seq_len(mine) == (n_calls(s) - off + 3) // 4,
                forall_int(0, seq_len(mine), lambda j: seq_get(mine, j) is seq_get(hist(s), off + 4 * j)))


def vector_ok(s):
    """C01: the advertised vector is exactly the legal set of the position (auction in progress)."""
    av = s._BiddingPhase__available_bid
    who = opt_or(s._BiddingPhase__active_player, Player.N)
    return forall(G.CALLS_IN_ORDER,
                  lambda c: vec_get(av, G.CALL_INDEX[c]) == ite(A.legal(lb(s), lbr(s), cx(s), cxx(s), who, c), 1, 0))


def first_ok(s):
    """Entries of the first-to-name table belong to the side they are filed under; the entry for
    the last bid's side and denomination is filled."""
    dc = s._BiddingPhase__declarer_check
    sides = forall(Pair, lambda pr: forall(Suit, lambda d: disj(
        dc[pr][d] is None, G.side(opt_or(dc[pr][d], Player.N)) is pr)))
    cur = forall(Pair, lambda pr: forall(Suit, lambda d: implies(
        conj(lb(s) is not None, G.side(opt_or(lbr(s), Player.N)) is pr,
             G.denom(opt_or(lb(s), Bid.C1)) is d),
        dc[pr][d] is not None)))
    return conj(sides, cur)


def inv(s):
    h = hist(s)
    n = n_calls(s)
    return conj(
        # C02: ended exactly when the Laws say, turn by rotation, personal lists
        iff(over(s), A.is_over(h, n)),
        implies(not over(s), s._BiddingPhase__active_player is turn(s)),
        forall(Player, lambda p: share_ok(s, p)),
        # bookkeeping of the last bid
        iff(lb(s) is None, lbr(s) is None),
        implies(lb(s) is not None, G.call_index(opt_or(lb(s), Bid.C1)) < 35),
        implies(lb(s) is None, conj(not cx(s), not cxx(s))),
        implies(cxx(s), cx(s)),
        # no bid yet: only passes so far (at most four)
        implies(lb(s) is None, conj(n <= 4, forall(range(4), lambda k: implies(k < n, seq_get(h, k) is Bid.Pass)))),
        # a bid exists: the history is non-empty and, while in progress, one of the last three
        # calls is not a pass
        implies(lb(s) is not None, n >= 1),
        implies(conj(lb(s) is not None, not over(s)),
                disj(seq_get(h, n - 1) is not Bid.Pass,
                     conj(n >= 2, seq_get(h, n - 2) is not Bid.Pass),
                     conj(n >= 3, seq_get(h, n - 3) is not Bid.Pass))),
        # C01: vector == legal set while in progress
        implies(not over(s), vector_ok(s)),
        # C03: first-to-name table
        first_ok(s),
    )


def rebuild(obj):
    """Drive a fresh real object through the model's call history; None if the model state is not
    the state the real code reaches (then it is not a counterexample)."""
    bp = BiddingPhase(getattr(obj, M + 'dealer'), getattr(obj, M + 'vul'))
    for b in getattr(obj, M + 'bid_history'):
        if bp.has_done():
            return None
        if bp.take_bid(b) is BiddingPhaseState.ILLEGAL:
            return None
    return bp if same(vars(bp), vars(obj)) else None


def trace(obj):
    return (BiddingPhase(getattr(obj, M + 'dealer'), getattr(obj, M + 'vul')),
            [('bridge_env.bidding_phase.BiddingPhase.take_bid', dict(bid=b))
             for b in getattr(obj, M + 'bid_history')])


def sample(rng):
    """A reachable real object: random dealer/vul, random legal-biased call sequence."""
    bp = BiddingPhase(rng.choice(list(Player)), rng.choice(list(Vul)))
    steps = rng.choice([0, 1, 2, 3, 4, 5, 8, 12, 30, 400])
    for _ in range(steps):
        if bp.has_done():
            break
        if rng.random() < 0.55:
            cands = [Bid.Pass]
        else:
            cands = [c for c in G.CALLS_IN_ORDER if bp.available_bid[c.idx] == 1]
            if rng.random() < 0.3:
                cands = cands[:6] + cands[-3:]
        bp.take_bid(rng.choice(cands))
    return bp


def random_trace(rng):
    bp = BiddingPhase(rng.choice(list(Player)), rng.choice(list(Vul)))
    q = 'bridge_env.bidding_phase.BiddingPhase.take_bid'
    style = rng.random()

    def step(obj, i):
        if i > 330:
            return None
        r = rng.random()
        if r < (0.75 if style < 0.5 else 0.4):
            return q, dict(bid=Bid.Pass)
        if r < 0.9:
            legal = [c for c in G.CALLS_IN_ORDER if obj.available_bid[c.idx] == 1]
            pick = legal[:4] + legal[-3:] if style < 0.8 else legal
            return q, dict(bid=rng.choice(pick))
        return q, dict(bid=rng.choice(G.CALLS_IN_ORDER))   # possibly illegal / after the end
    return bp, step


@klass('bridge_env.bidding_phase.BiddingPhase', props=P123)
class _BP:
    shape = BPShape
    inv = inv
    rebuild = rebuild
    sample = sample
    trace = trace
    random_trace = random_trace


# ---- __init__ ----------------------------------------------------------------------------------

@contract('bridge_env.bidding_phase.BiddingPhase.__init__', props=P123)
class _init:
    params = dict(dealer=Enum(Player), vul=Enum(Vul))

    def ensures_empty_auction(self, dealer, vul):
        return conj(n_calls(self) == 0, self._BiddingPhase__dealer is dealer,
                    self._BiddingPhase__vul is vul, self._BiddingPhase__active_player is dealer,
                    lb(self) is None)


# ---- getters -----------------------------------------------------------------------------------

@contract('bridge_env.bidding_phase.BiddingPhase.has_done', props=P123)
class _hd:
    check_inv = False

    def result(self):
        return self._BiddingPhase__active_player is None


@contract('bridge_env.bidding_phase.BiddingPhase.active_player', props=P123)
class _ap:
    check_inv = False

    def result(self):
        return self._BiddingPhase__active_player


@contract('bridge_env.bidding_phase.BiddingPhase.dealer', props=P123)
class _dl:
    check_inv = False

    def result(self):
        return self._BiddingPhase__dealer


@contract('bridge_env.bidding_phase.BiddingPhase.vul', props=P123)
class _vl:
    check_inv = False

    def result(self):
        return self._BiddingPhase__vul


@contract('bridge_env.bidding_phase.BiddingPhase.bid_history', props=P123)
class _bh:
    check_inv = False

    def result(self):
        return self._BiddingPhase__bid_history


@contract('bridge_env.bidding_phase.BiddingPhase.players_bid_history', props=P123)
class _pbh:
    check_inv = False

    def result(self):
        return self._BiddingPhase__players_bid_history


@contract('bridge_env.bidding_phase.BiddingPhase.available_bid', props=P123)
class _ab:
    check_inv = False

    def result(self):
        return self._BiddingPhase__available_bid


# ---- take_bid ----------------------------------------------------------------------------------

def is_legal_now(s, bid):
    return A.legal(lb(s), lbr(s), cx(s), cxx(s), opt_or(s._BiddingPhase__active_player, Player.N), bid)


@contract('bridge_env.bidding_phase.BiddingPhase.take_bid', props=P123)
class _take_bid:
    params = dict(bid=Enum(Bid))
    returns = Enum(BiddingPhaseState)
    raises = {Exception: 'iff'}
    modifies = ['self']

    # C02: once the auction has ended every further call is refused with an error ...
    def raises_Exception(self):
        return over(self)

    # ... and nothing changes any more
    def excensures_nothing_changes(self, old):
        return same(self, old.self)

    # C01: accepted iff legal; a rejected call is reported ILLEGAL and leaves everything unchanged
    def ensures_rejected_iff_illegal(self, bid, old, result):
        return iff(result is BiddingPhaseState.ILLEGAL, not is_legal_now(old.self, bid))

    def ensures_rejected_changes_nothing(self, bid, old, result):
        return implies(result is BiddingPhaseState.ILLEGAL, same(self, old.self))

    # accepted: history grows by exactly this call, in the common list and the caller's own list
    def ensures_accepted_appends(self, bid, old, result):
        caller = opt_or(old.self._BiddingPhase__active_player, Player.N)
        return implies(result is not BiddingPhaseState.ILLEGAL, conj(
            seq_appended(hist(self), hist(old.self), bid),
            forall(Player, lambda p: ite(
                p is caller,
                seq_appended(self._BiddingPhase__players_bid_history[p],
                             old.self._BiddingPhase__players_bid_history[p], bid),
                same(self._BiddingPhase__players_bid_history[p],
                     old.self._BiddingPhase__players_bid_history[p]))),
            self._BiddingPhase__dealer is old.self._BiddingPhase__dealer,
            self._BiddingPhase__vul is old.self._BiddingPhase__vul))

    # C02: FINISHED exactly when this call ends the auction, then no seat is on turn;
    # otherwise ONGOING and the turn passes to the left-hand seat
    def ensures_ends_exactly_when_due(self, bid, old, result):
        due = A.ends(hist(old.self), n_calls(old.self), bid)
        caller = opt_or(old.self._BiddingPhase__active_player, Player.N)
        return implies(result is not BiddingPhaseState.ILLEGAL, conj(
            iff(result is BiddingPhaseState.FINISHED, due),
            iff(result is BiddingPhaseState.ONGOING, not due),
            ite(due, self._BiddingPhase__active_player is None,
                self._BiddingPhase__active_player is G.left(caller))))

    # C03: last bid / its bidder / doubling state / first-to-name table follow the Laws
    def ensures_position_follows_laws(self, bid, old, result):
        caller = opt_or(old.self._BiddingPhase__active_player, Player.N)
        is_bid = G.call_index(bid) < 35
        st = A.status_after(cx(old.self), cxx(old.self), bid)
        odc = old.self._BiddingPhase__declarer_check
        dc = self._BiddingPhase__declarer_check
        return implies(result is not BiddingPhaseState.ILLEGAL, conj(
            lb(self) is ite(is_bid, bid, lb(old.self)),
            lbr(self) is ite(is_bid, caller, lbr(old.self)),
            iff(cx(self), st[0]), iff(cxx(self), st[1]),
            forall(Pair, lambda pr: forall(Suit, lambda d:
                   dc[pr][d] is A.first_after(odc[pr][d], pr, d, caller, bid)))))

    def cover_double_accepted(bid, result):
        return conj(bid is Bid.X, result is BiddingPhaseState.ONGOING)

    def cover_redouble_accepted(bid, result):
        return conj(bid is Bid.XX, result is BiddingPhaseState.ONGOING)

    def cover_finished(result):
        return result is BiddingPhaseState.FINISHED

    def cover_rejected(result):
        return result is BiddingPhaseState.ILLEGAL


# ---- contract() --------------------------------------------------------------------------------

def effective_status(x, xx):
    return ite(xx, 2, ite(x, 1, 0))


@contract('bridge_env.bidding_phase.BiddingPhase.contract', props=P123)
class _contract:
    returns = Opt(ContractS)
    modifies = []

    # C03: before the auction has ended no contract is reported
    def ensures_none_before_end(self, result):
        return iff(result is None, not over(self))

    def ensures_unchanged(self, old):
        return same(self, old.self)

    # no bid at all: passed out, no declarer, board vulnerability
    def ensures_passed_out(self, result):
        return True if not (over(self) and lb(self) is None) else conj(
            result.final_bid is None, result.declarer is None,
            result.vul is self._BiddingPhase__vul)

    # otherwise: the last bid, its doubling state, the board's vulnerability and the member of the
    # bidding side who first named the denomination
    def ensures_final_contract(self, result):
        side = G.side(opt_or(lbr(self), Player.N))
        den = opt_or(G.denom(opt_or(lb(self), Bid.C1)), Suit.C)
        return True if not (over(self) and lb(self) is not None) else conj(
            result.final_bid is lb(self),
            effective_status(result.x, result.xx) == effective_status(cx(self), cxx(self)),
            result.vul is self._BiddingPhase__vul,
            result.declarer is self._BiddingPhase__declarer_check[side][den],
            result.declarer is not None)

"""C17 / C18: the PBN reader (game splitting, tag extraction, board settings) and the PBN writer."""
import z3

from bridge_env import Card, Contract, Hands, Player, Suit, Vul
from bridge_env.data_handler.abstract_classes import BoardSetting
from bridge_env.data_handler.pbn_handler.parser import PbnParser
from bridge_env.data_handler.pbn_handler.writer import PbnWriter, Scoring
from pyvc.dsl import (Bool, Const, Dict, Enum, Ext, Int, IntElem, Obj, OneOf, OpaqueVal, Opt, Seq,
                      Shape, Text, TraceList, TraceReset, TracePrefix, Tuple, contract, klass, lemma,
                      transparent, LoopContract)
from pyvc.ext import LineElem, LINE_BLANK, LINE_CONTENT, LINE_PERCENT
from pyvc.speclib import (conj, disj, forall, iff, implies, ite, line_kind, run_real, same, seq_appended,
                          seq_get, seq_len)
from pyvc import strings as XS
import spec.pbn as PBN
import spec.table as G
from contracts.pbn_deal import PbnDealText
from contracts.playing import HandsShape

P17 = ['C17', 'C18']

ParserShape = Obj(PbnParser, dict(_in_comment=Bool(), tag_pair_buffer=Seq(LineElem()),
                                  comment_list=TraceList(), comment_buffer=TraceList()))
ParserLoopReset = dict(comment_list=TraceReset(), comment_buffer=TraceReset())


@klass('bridge_env.data_handler.pbn_handler.parser.PbnParser', props=P17)
class _PP:
    shape = ParserShape


transparent('bridge_env.data_handler.pbn_handler.parser.PbnParser.__init__', props=P17)

VALUE_EXCL = '"[]\n\r;{'      # the alphabet of tag values in the rendered files (C17 statement)


# ---- extract_content: a line without comment openers is kept as it is ----------------------------

def _tag_line(ctx, it):
    tag = ['Deal', 'Dealer', 'Vulnerable', 'Board', 'Event', 'OptimumResultTable'][
        ctx.decide_among(_k(ctx, 'tag', 6), list(range(6)))]
    val = XS.XStr.atom(ctx.fresh_name('value'), excl=VALUE_EXCL)
    line = XS.str_concat(XS.str_concat('[' + tag + ' "', val), '"]\n')
    return dict(string=line)


def _k(ctx, name, n):
    k = ctx.fresh_int(name)
    ctx.assume_type(z3.And(k >= 0, k < n))
    return k


@contract('bridge_env.data_handler.pbn_handler.parser.PbnParser.extract_content', props=P17)
class _extract:
    at_calls = 'contract'
    params = dict(self=Obj(PbnParser, dict(_in_comment=Bool(), tag_pair_buffer=TraceList(),
                                           comment_list=TraceList(), comment_buffer=TraceList())))
    fresh_params = _tag_line
    sample_params = lambda rng: dict(string='[%s "%s"]\n' % (rng.choice(['Deal', 'Board', 'Event']),
                                                             rng.choice(['', 'a b', 'x'])))
    modifies = ['self.tag_pair_buffer']
    note = ('verified for every tag-pair line [Tag "value"] whose value has no quote, bracket, '
            'line break or comment opener; at call sites: any line without a comment opener')

    def requires_no_comment_in_progress(self):
        return not self._in_comment

    def ensures_line_kept(self, string, old):
        return seq_appended(self.tag_pair_buffer, old.self.tag_pair_buffer, string)


# ---- parse_stream: one game per maximal run of non-blank lines with content ----------------------

def _stream_inv(self):
    return not self._in_comment


def _one_step_of_game_splitting(self, iter, line, __yielded__):
    """C17: a blank line ends the current game, if there is one (the lines since the last game
    contain a content line); '%' lines and blank lines with no game in progress produce nothing;
    a content line joins the game in progress."""
    had_game = seq_len(iter.self.tag_pair_buffer) > 0
    k = line_kind(line)
    return conj(
        len(__yielded__) == ite(conj(k == LINE_BLANK, had_game), 1, 0),
        ite(k == LINE_BLANK, seq_len(self.tag_pair_buffer) == 0,
            ite(k == LINE_PERCENT, same(self.tag_pair_buffer, iter.self.tag_pair_buffer),
                seq_appended(self.tag_pair_buffer, iter.self.tag_pair_buffer, line))))


def _count_games(lines, pending):
    """Games in a file by the format's definition: maximal runs of non-blank lines that contain at
    least one line not starting with '%' (pending: such a run is already in progress)."""
    from pyvc.speclib import line_kind as lk
    n = 0
    for ln in lines:
        k = lk(ln)
        if k == 0:
            n += 1 if pending else 0
            pending = False
        elif k == 2:
            pending = True
    return n + (1 if pending else 0)


@contract('bridge_env.data_handler.pbn_handler.parser.PbnParser.parse_stream', props=P17)
class _parse_stream:
    params = dict(fp=Seq(LineElem()))
    modifies = ['self']
    loops = {0: LoopContract(invariant=_stream_inv,
                             havoc_heap={'self': Obj(PbnParser, dict(
                                 _in_comment=Bool(), tag_pair_buffer=Seq(LineElem()),
                                 comment_list=TraceReset(), comment_buffer=TraceReset())),
                                 '__yielded__': TraceReset()},
                             exit_snapshot=True,
                             body_ensures=dict(one_step_of_game_splitting=_one_step_of_game_splitting))}
    note = ('lines are classified as blank / starting with % / content (no comment opener); '
            'multi-line comments are outside the domain (the statement renders none)')

    def requires_no_comment_in_progress(self):
        return not self._in_comment

    # (native form of the per-line obligation: the number of games delivered for a whole file)
    native_ensures_games_counted = ('loop0.body/one_step_of_game_splitting',
                                    lambda fp, old, result: len(result) == _count_games(
                                        fp, len(old.self.tag_pair_buffer) > 0))

    # after the last line: the game in progress, if any, is delivered too
    def ensures_last_game_delivered(self, result, frame):
        at_end_of_stream = frame.__after_loop0__.self
        return len(result) == ite(seq_len(at_end_of_stream.tag_pair_buffer) > 0, 1, 0)

    # C17/C18: every file is read on its own -- once a stream is exhausted, nothing of it is
    # carried over into the next stream read with the same parser (a file need not end with an
    # empty line, so the last game is delivered at the end of the stream)
    def ensures_nothing_carried_over_to_the_next_file(self):
        return seq_len(self.tag_pair_buffer) == 0


# ---- parse_board: tag extraction (findall over the joined lines, first occurrence wins) ----------

import itertools

NEEDED = ('Deal', 'Dealer', 'Vulnerable', 'Board')
ORDERS = list(itertools.permutations(NEEDED + ('Event',)))


def _value_atom(ctx, name):
    return XS.XStr([(True, XS.Atom(ctx.fresh_name(name), excl=VALUE_EXCL + '\t', ws_normal=True))])


def _game_lines(ctx, it):
    """A game as a PBN import file may render it: the four tags a board setting needs and one
    further tag in ANY order, a table row without brackets behind the first tag, optionally a
    repeated Board tag with another value (must be ignored), LF or CRLF line ends."""
    order = ORDERS[ctx.decide_among(_k(ctx, 'order', len(ORDERS)), list(range(len(ORDERS))))]
    eol = ['\n', '\r\n'][ctx.decide_among(_k(ctx, 'eol', 2), [0, 1])]
    dup = ctx.decide_among(_k(ctx, 'dup', 2), [0, 1])
    vals = {t: _value_atom(ctx, 'v_' + t) for t in order}
    lines = []
    for j, t in enumerate(order):
        lines.append(XS.str_concat(XS.str_concat('[' + t + ' "', vals[t]), '"]' + eol))
        if j == 0:
            lines.append('S A K 3 - 1' + eol)
    if dup:
        lines.append(XS.str_concat(XS.str_concat('[Board "', _value_atom(ctx, 'other')), '"]' + eol))
    from pyvc.values import SList
    ghosts = {'ghost_' + t: vals[t] for t in NEEDED}
    return dict(self=None, ghost_lines=SList(lines), **ghosts)


def _game_lines_fresh(ctx, it):
    d = _game_lines(ctx, it)
    from pyvc.values import SObj, SList
    d['self'] = SObj(PbnParser, dict(_in_comment=False, tag_pair_buffer=d.pop('ghost_lines'),
                                     comment_list=SList([]), comment_buffer=SList([])))
    return d


def _game_lines_sample(rng):
    order = list(rng.choice(ORDERS))
    eol = rng.choice(['\n', '\r\n'])
    vals = {t: rng.choice(['x', 'N', 'a b', 'N:- - - -', '12', 'Both']) for t in order}
    lines = []
    for j, t in enumerate(order):
        lines.append(f'[{t} "{vals[t]}"]{eol}')
        if j == 0:
            lines.append('S A K 3 - 1' + eol)
    if rng.random() < 0.5:
        lines.append(f'[Board "zz"]{eol}')
    p = PbnParser()
    p.tag_pair_buffer = lines
    return dict(self=p, **{'ghost_' + t: vals[t] for t in NEEDED})


@contract('bridge_env.data_handler.pbn_handler.parser.PbnParser.parse_board', props=P17)
class _parse_board:
    at_calls = 'abstract'
    abstract_raises = ()
    returns = OpaqueVal('game')
    fresh_params = _game_lines_fresh
    sample_params = _game_lines_sample
    modifies = []
    note = ('domain: values without quote, bracket, line break, tab or comment opener whose inner '
            'blanks are single spaces (a run of blanks is collapsed by the parser: KNOWN FINDING)')

    # each of the four tags maps to the value written first
    def ensures_first_written_values(result, ghost_Deal, ghost_Dealer, ghost_Vulnerable,
                                     ghost_Board):
        # (a tag that is not there at all makes the clause false, not an evaluation error)
        return all(t in result for t in NEEDED) and conj(
            result['Deal'] == ghost_Deal, result['Dealer'] == ghost_Dealer,
            result['Vulnerable'] == ghost_Vulnerable, result['Board'] == ghost_Board)


# ---- parse_board_settings: Deal / Dealer / Vulnerable / Board of every game, in order ------------

from pyvc.dsl import AltText

GameDictShape = Dict({'Deal': PbnDealText(), 'Dealer': AltText(['N', 'E', 'S', 'W']),
                      'Vulnerable': AltText(list(G.VUL_OF_TEXT)), 'Board': Text()})
GamesShape = Ext('boardlist', dict(n=Int(0), reads=TraceList(), item_shape=Const(GameDictShape)))
from pyvc.dsl import REGISTRY as _REG
_REG.fns['bridge_env.data_handler.pbn_handler.parser.PbnParser.parse_stream'].returns = GamesShape


def _settings_inv():
    return True


def _game_becomes_the_board_written(outputs, x, iter):
    """C17: the game's board setting has the deal written (from whichever first seat), its dealer,
    its vulnerability in any accepted spelling, and its board id -- and it is put behind the
    boards of the earlier games (file order)."""
    d = PBN.parse_deal(x['Deal'])
    if not (outputs == iter.outputs + [outputs[-1]]):
        return False
    b = outputs[-1]
    return conj(
        b.hands.north == d[Player.N], b.hands.east == d[Player.E], b.hands.south == d[Player.S],
        b.hands.west == d[Player.W], b.dealer is G.SEAT_OF_LETTER[x['Dealer']],
        b.vul is G.VUL_OF_TEXT[x['Vulnerable']], b.board_id == x['Board'], b.dda is None)


def _pbn_file_sample(rng):
    """A well-formed PBN import file as a list of lines (what the statement of C17 renders)."""
    import random as _r
    lines = []
    if rng.random() < 0.5:
        lines += ['% PBN 2.1\n']
    eol = rng.choice(['\n', '\r\n'])
    for g in range(rng.randint(0, 3)):
        lines += [eol] * rng.randint(0 if g == 0 else 1, 2)
        h = Hands.generate_random_hands()
        tags = [('Deal', h.to_pbn(rng.choice(list(Player)))), ('Dealer', rng.choice('NESW')),
                ('Vulnerable', rng.choice(list(G.VUL_OF_TEXT))), ('Board', str(rng.randint(1, 99))),
                ('Event', 'x y')]
        rng.shuffle(tags)
        for t, v in tags:
            lines.append(f'[{t} "{v}"]{eol}')
    lines += [eol] * rng.randint(0, 2)
    return dict(self=PbnParser(), fp=lines)


@contract('bridge_env.data_handler.pbn_handler.parser.PbnParser.parse_board_settings', props=P17)
class _parse_board_settings:
    sample_params = _pbn_file_sample
    params = dict(fp=Seq(LineElem()))
    modifies = ['self']
    loops = {0: LoopContract(invariant=_settings_inv, havoc_heap=dict(outputs=TracePrefix()),
                             body_ensures=dict(
                                 game_becomes_the_board_written=_game_becomes_the_board_written))}
    note = ('parse_stream is used by contract: its games arrive in file order; each game is the '
            'dictionary parse_board extracts (tag values: a canonical deal text, a seat letter, an '
            'accepted vulnerability spelling, an id)')

    def requires_no_comment_in_progress(self):
        return not self._in_comment


def _each_game_once_in_order(outputs, x, iter):
    """parse_all hands on every game parse_stream delivers, once, in the order delivered: the
    game is put behind the games of the earlier iterations."""
    return outputs == iter.outputs + [x]


@contract('bridge_env.data_handler.pbn_handler.parser.PbnParser.parse_all', props=P17 + ['C18'])
class _parse_all:
    sample_params = _pbn_file_sample
    params = dict(fp=Seq(LineElem()))
    modifies = ['self']
    loops = {0: LoopContract(invariant=_settings_inv, havoc_heap=dict(outputs=TracePrefix()),
                             body_ensures=dict(each_game_once_in_order=_each_game_once_in_order))}
    note = ('C18 observes the parser through parse_all: the list is exactly the games of '
            'parse_stream (used by contract), in order')

    def requires_no_comment_in_progress(self):
        return not self._in_comment

    # (native form: the same games as the stream reader delivers on a fresh parser)
    native_ensures_same_games_as_the_stream = (
        'loop0.body/each_game_once_in_order',
        lambda fp, result: result == list(PbnParser().parse_stream(list(fp))))


@lemma('C17-known-finding-run-of-blanks-in-a-value', props=['C17'])
class _:
    """Witness obligation for a known defect: a board id with two consecutive blanks."""
    params = dict()

    def ensures_id_with_two_spaces_reads_back():
        p = PbnParser()
        p.tag_pair_buffer = ['[Board "a  b"]\n']
        return run_real(PbnParser.parse_board, p)['Board'] == 'a  b'


# ---- the PBN writer (C18) ------------------------------------------------------------------------

import datetime
from bridge_env import Bid
from contracts.json_io import FileShape
from contracts.pbn_deal import full_or_unknown
from contracts.score import ContractS, passed_out, valid_contract
import spec.jsonlog as J

P18 = ['C18']
WriterShape = Obj(PbnWriter, dict(writer=FileShape))
NameText = Text(excl=VALUE_EXCL + '\t')


@klass('bridge_env.data_handler.pbn_handler.writer.PbnWriter', props=P18)
class _PW:
    shape = WriterShape


def wout(w):
    return w.writer.out


def _short_line(ctx, it):
    body = XS.XStr([(True, XS.Atom(ctx.fresh_name('text'), excl='\n'))])
    ctx.assume_type(z3.Length(body.segs[0][1].t) <= 200)
    end = ['"]', '"]\n'][ctx.decide_among(_k(ctx, 'nl', 2), [0, 1])]
    return dict(string=XS.str_concat(XS.str_concat('[Tag "', body), end))


def _fits_inv(self, string, entry):
    # (lines that fit: the loop body never runs, the text stays what it was)
    return len(string) <= self.MAX_LINE_CHARS and string == entry.string


def _chunks_ok(out_before, out_after):
    new = out_after[len(out_before):]
    return all(len(c) <= 255 and c.endswith('\n') for c in new)


@contract('bridge_env.data_handler.pbn_handler.writer.PbnWriter.write_line', props=P18)
class _write_line:
    at_calls = 'contract'
    fresh_params = _short_line
    sample_params = lambda rng: dict(string=rng.choice(['x', 'y\n', 'a' * 254, 'b' * 255, 'c' * 600,
                                                         'd' * 254 + '\n', 'e' * 509]))
    modifies = ['self.writer.out']
    loops = {0: LoopContract(invariant=_fits_inv, havoc=dict(string=Text()), entry_snapshot=True,
                             never_iterates=True)}
    note = ('two contracts: for callers, lines that fit (one chunk, the line itself); variant '
            '[any-length]: a text of symbolic length, chunking proved by loop invariant and variant')

    def requires_fits_on_one_line(self, string):
        return len(string) <= 254

    def ensures_one_line(self, string, old):
        return wout(self) == wout(old.self) + [string if string[-1] == '\n' else string + '\n']

    native_ensures_chunks_bounded = ('post/one_line',
                                     lambda self, old: _chunks_ok(wout(old.self), wout(self)))


@contract('bridge_env.data_handler.pbn_handler.writer.PbnWriter.write_header', props=P18)
class _write_header:
    modifies = ['self.writer.out']
    note = 'both header lines start with the escape character, so the reader skips them (parse_stream)'

    # C18: the header of an export file is two escaped lines -- they belong to no game
    def ensures_two_escaped_lines(self, old):
        new = wout(self)
        k = len(wout(old.self))
        return conj(len(new) == k + 2, new[:k] == wout(old.self),
                    new[k][0] == '%', new[k][-1] == '\n', len(new[k]) <= 255,
                    new[k + 1] == '% EXPORT\n')


@contract('bridge_env.data_handler.pbn_handler.writer.PbnWriter.write_tag_pair', props=P18)
class _write_tag_pair:
    params = dict(tag=OneOf(list(PBN.MANDATORY_TAGS)), content=NameText)
    modifies = ['self.writer.out']

    def requires_fits_on_one_line(content):
        return len(content) <= 200

    def ensures_one_tag_line(self, tag, content, old):
        return wout(self) == wout(old.self) + [PBN.tag_line(tag, content)]


@contract('bridge_env.data_handler.pbn_handler.writer.PbnWriter.write_board_result', props=P18)
class _write_board_result:
    params = dict(event=NameText, site=NameText, date=Const(datetime.date(2026, 9, 29)),
                  board_num=Int(1), west_player=NameText, north_player=NameText,
                  east_player=NameText, south_player=NameText, dealer=Enum(Player), deal=HandsShape,
                  scoring=OneOf([Scoring.IMP, Scoring.MP]), contract=ContractS,
                  taken_tricks=Opt(Int(0, 13)))
    modifies = ['self.writer.out']
    note = 'names / event / site of at most 200 characters (so that no line is wrapped)'

    def requires_domain(event, site, board_num, west_player, north_player, east_player,
                        south_player, deal, contract, taken_tricks):
        return conj(board_num <= 10 ** 9, len(event) <= 200, len(site) <= 200, len(west_player) <= 200,
                    len(north_player) <= 200, len(east_player) <= 200, len(south_player) <= 200,
                    full_or_unknown(deal), valid_contract(contract),
                    (taken_tricks is None) == passed_out(contract),
                    implies(not passed_out(contract), contract.declarer is not None))

    # the fifteen mandatory tags in order with the values written, followed by the empty line that
    # separates this game from the next
    def ensures_one_complete_game(self, event, site, board_num, west_player, north_player,
                                  east_player, south_player, dealer, deal, scoring, contract,
                                  taken_tricks, old):
        vals = PBN.export_values(event, site, '2026.09.29', board_num, west_player, north_player,
                                 east_player, south_player, dealer, deal, scoring.value, contract,
                                 taken_tricks)
        return wout(self) == wout(old.self) + PBN.export_game_lines(vals)


class ValText(Shape):
    """A tag value as the statement renders them: no quote, bracket, line break, tab or comment
    opener; inner blanks are single spaces."""

    def sample(self, rng):
        return rng.choice(['', 'x', 'a b', 'Tokyo 2019', 'N', '7'])

    def fresh(self, ctx, name):
        return XS.XStr([(True, XS.Atom(ctx.fresh_name(name), excl=VALUE_EXCL + '\t', ws_normal=True))])


FIFTEEN = Tuple(*[ValText() for _ in range(15)])


@lemma('C18-consecutive-games-are-read-back-separately', props=P18 + ['C17'])
class _:
    """Reader side: two games in export format, one after the other, are read back as two games
    in the order written, each with its fifteen values."""
    params = dict(a=FIFTEEN, b=FIFTEEN)

    def ensures_two_games_with_their_values(a, b):
        lines = PBN.export_game_lines(a) + PBN.export_game_lines(b)
        games = run_real(PbnParser.parse_all, PbnParser(), lines)
        return len(games) == 2 and all(t in g for t in PBN.MANDATORY_TAGS for g in games) and conj(
            forall(range(15), lambda i: games[0][PBN.MANDATORY_TAGS[i]] == a[i]),
            forall(range(15), lambda i: games[1][PBN.MANDATORY_TAGS[i]] == b[i]))


# ---- write_line for lines of ANY length (scenario variant of the contract above) -----------------

from pyvc.dsl import CharSeq
from pyvc.speclib import char_code, forall_int, is_suffix_view, text_len

NL = 10


def _long_inv(self, string, entry):
    """`string` is what is left of the (LF-terminated) line: a suffix of it, itself ending in LF."""
    s1 = entry.string
    return conj(is_suffix_view(string, s1), text_len(string) >= 1,
                char_code(s1, text_len(s1) - 1) == NL)


def _long_variant(string):
    return text_len(string)


def _chunk_written(self, iter, part_string):
    """C18: a chunk is exactly 255 characters: the next 254 characters of the line and a line
    break."""
    return conj(wout(self) == [part_string], text_len(part_string) == 255,
                char_code(part_string, 254) == NL,
                forall_int(0, 254, lambda i: char_code(part_string, i) == char_code(iter.string, i)))


def _last_chunk(self, frame):
    """... and the rest (at most 255 characters, ending in the line break) is written last."""
    s = frame.string
    return conj(wout(self)[-1] == s if len(wout(self)) >= 1 else False, text_len(s) <= 255,
                text_len(s) >= 1, char_code(s, text_len(s) - 1) == NL)


_REG.fns['bridge_env.data_handler.pbn_handler.writer.PbnWriter.write_line'].variants = {
    'any-length': dict(
        fresh_params=None, sample_params=None,
        params=dict(string=CharSeq(1)),
        requires=[],
        ensures=[('no_line_exceeds_255_characters', _last_chunk)],
        native_ensures=[('chunks_bounded', 'loop0.body/chunk_written',
                         lambda self, old: _chunks_ok(wout(old.self), wout(self)))],
        loops={0: LoopContract(invariant=_long_inv, variant=_long_variant, entry_snapshot=True,
                               havoc=dict(string=CharSeq(1), part_string=CharSeq(0)),
                               havoc_heap={'self.writer': Ext('file', dict(out=TraceReset()))},
                               body_ensures=dict(chunk_written=_chunk_written))})}

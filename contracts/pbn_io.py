"""C17 / C18: the PBN reader (game splitting, tag extraction, board settings) and the PBN writer."""
import z3

from bridge_env import Card, Contract, Hands, Player, Suit, Vul
from bridge_env.data_handler.abstract_classes import BoardSetting
from bridge_env.data_handler.pbn_handler.parser import PbnParser
from bridge_env.data_handler.pbn_handler.writer import PbnWriter, Scoring
from pyvc.dsl import (Bool, Const, Dict, Enum, Ext, Int, IntElem, Obj, OneOf, OpaqueVal, Opt, Seq,
                      Shape, Text, TraceList, TraceReset, Tuple, contract, klass, lemma,
                      transparent, LoopContract)
from pyvc.ext import LineElem, LINE_BLANK, LINE_CONTENT, LINE_PERCENT
from pyvc.speclib import (conj, disj, forall, iff, implies, ite, line_kind, same, seq_appended,
                          seq_get, seq_len)
from pyvc import strings as XS
import spec.pbn as PBN
import spec.table as G
from contracts.pbn_deal import PbnDealText
from contracts.playing import HandsShape

P17 = ['C17', 'C18']

ParserShape = Obj(PbnParser, dict(_in_comment=Bool(), tag_pair_buffer=Seq(LineElem()),
                                  comment_list=TraceList(), comment_buffer=TraceList()))
ParserLoopReset = dict(comment_list=TraceReset(), comment_buffer=TraceReset())


@klass('bridge_env.data_handler.pbn_handler.parser.PbnParser', props=P17)
class _PP:
    shape = ParserShape


transparent('bridge_env.data_handler.pbn_handler.parser.PbnParser.__init__', props=P17)

VALUE_EXCL = '"[]\n\r;{'      # the alphabet of tag values in the rendered files (C17 statement)


# ---- extract_content: a line without comment openers is kept as it is ----------------------------

def _tag_line(ctx, it):
    tag = ['Deal', 'Dealer', 'Vulnerable', 'Board', 'Event', 'OptimumResultTable'][
        ctx.decide_among(_k(ctx, 'tag', 6), list(range(6)))]
    val = XS.XStr.atom(ctx.fresh_name('value'), excl=VALUE_EXCL)
    line = XS.str_concat(XS.str_concat('[' + tag + ' "', val), '"]\n')
    return dict(string=line)


def _k(ctx, name, n):
    k = ctx.fresh_int(name)
    ctx.assume_type(z3.And(k >= 0, k < n))
    return k


@contract('bridge_env.data_handler.pbn_handler.parser.PbnParser.extract_content', props=P17)
class _extract:
    at_calls = 'contract'
    params = dict(self=Obj(PbnParser, dict(_in_comment=Bool(), tag_pair_buffer=TraceList(),
                                           comment_list=TraceList(), comment_buffer=TraceList())))
    fresh_params = _tag_line
    sample_params = lambda rng: dict(string='[%s "%s"]\n' % (rng.choice(['Deal', 'Board', 'Event']),
                                                             rng.choice(['', 'a b', 'x'])))
    modifies = ['self.tag_pair_buffer']
    note = ('verified for every tag-pair line [Tag "value"] whose value has no quote, bracket, '
            'line break or comment opener; at call sites: any line without a comment opener')

    def requires_no_comment_in_progress(self):
        return not self._in_comment

    def ensures_line_kept(self, string, old):
        return self.tag_pair_buffer == old.self.tag_pair_buffer + [string]


# ---- parse_stream: one game per maximal run of non-blank lines with content ----------------------

def _stream_inv(self):
    return not self._in_comment


def _one_step_of_game_splitting(self, iter, line, __yielded__):
    """C17: a blank line ends the current game, if there is one (the lines since the last game
    contain a content line); '%' lines and blank lines with no game in progress produce nothing;
    a content line joins the game in progress."""
    had_game = seq_len(iter.self.tag_pair_buffer) > 0
    k = line_kind(line)
    return conj(
        len(__yielded__) == ite(conj(k == LINE_BLANK, had_game), 1, 0),
        ite(k == LINE_BLANK, seq_len(self.tag_pair_buffer) == 0,
            ite(k == LINE_PERCENT, same(self.tag_pair_buffer, iter.self.tag_pair_buffer),
                seq_appended(self.tag_pair_buffer, iter.self.tag_pair_buffer, line))))


def _count_games(lines, pending):
    """Games in a file by the format's definition: maximal runs of non-blank lines that contain at
    least one line not starting with '%' (pending: such a run is already in progress)."""
    from pyvc.speclib import line_kind as lk
    n = 0
    for ln in lines:
        k = lk(ln)
        if k == 0:
            n += 1 if pending else 0
            pending = False
        elif k == 2:
            pending = True
    return n + (1 if pending else 0)


@contract('bridge_env.data_handler.pbn_handler.parser.PbnParser.parse_stream', props=P17)
class _parse_stream:
    params = dict(fp=Seq(LineElem()))
    modifies = ['self']
    loops = {0: LoopContract(invariant=_stream_inv,
                             havoc_heap={'self': Obj(PbnParser, dict(
                                 _in_comment=Bool(), tag_pair_buffer=Seq(LineElem()),
                                 comment_list=TraceReset(), comment_buffer=TraceReset())),
                                 '__yielded__': TraceReset()},
                             body_ensures=dict(one_step_of_game_splitting=_one_step_of_game_splitting))}
    note = ('lines are classified as blank / starting with % / content (no comment opener); '
            'multi-line comments are outside the domain (the statement renders none)')

    def requires_no_comment_in_progress(self):
        return not self._in_comment

    # (native form of the per-line obligation: the number of games delivered for a whole file)
    native_ensures_games_counted = ('loop0.body/one_step_of_game_splitting',
                                    lambda fp, old, result: len(result) == _count_games(
                                        fp, len(old.self.tag_pair_buffer) > 0))

    # after the last line: the game in progress, if any, is delivered too
    def ensures_last_game_delivered(self, result, frame):
        return len(result) == ite(seq_len(self.tag_pair_buffer) > 0, 1, 0)


@contract('bridge_env.data_handler.pbn_handler.parser.PbnParser.parse_board', props=P17)
class _parse_board_abs:
    at_calls = 'abstract'
    abstract_raises = ()
    returns = OpaqueVal('game')
    verify = False
    note = 'abstracted in parse_stream (its own contract is PbnParser.parse_board[tags] below)'

"""C14: deal encodings (binary tuples, numpy vectors, JSON card lists, random dealer).  The PBN text
codec lives in contracts/pbn_deal.py."""
from bridge_env import Card, Hands, Pair, Player, Suit
from bridge_env.data_handler.json_handler.parser import hands_parser
from bridge_env.data_handler.json_handler.writer import convert_deal
from pyvc.dsl import (Bool, Card as CardS, CardSet, Const, Dict, Enum, Int, Obj, OneOf, Opt, Shape,
                      Tuple, Vec, contract, klass, lemma, transparent)
from pyvc.speclib import (card_in, conj, disj, exists, forall, iff, implies, ite, same, seq_get,
                          sets_disjoint, vec_get)
from pyvc import values as V
import spec.table as G
from contracts.playing import HandsShape

P = ['C14']
ALL = G.ALL_CARDS
N, E, S, W = Player.N, Player.E, Player.S, Player.W
SEAT_FIELD = {N: 'north', E: 'east', S: 'south', W: 'west'}
LETTER = {N: 'N', E: 'E', S: 'S', W: 'W'}


def hand(h, p):
    return getattr(h, SEAT_FIELD[p])


@klass('bridge_env.hands.Hands', props=P + ['C12', 'C17'])
class _H:
    shape = HandsShape


transparent('bridge_env.hands.Hands.__init__', props=P + ['C05', 'C12', 'C17'])


@contract('bridge_env.hands.Hands.__eq__', props=P)
class _:
    params = dict(other=HandsShape)
    modifies = []

    def result(self, other):
        return conj(self.north == other.north, self.east == other.east,
                    self.south == other.south, self.west == other.west)


@contract('bridge_env.hands.Hands.to_dict', props=P)
class _:
    modifies = []

    def ensures_the_four_hands(self, result):
        return conj(result[N] is self.north, result[E] is self.east, result[S] is self.south,
                    result[W] is self.west)


# ---- 52-slot binary tuples ---------------------------------------------------------------------

Bin52 = Tuple(*[Int() for _ in range(52)])
BinDict = Dict({p: Bin52 for p in Player})


def binary_of(h, b):
    """b is the binary encoding of h: slot i of seat p is 1 iff the card with index i is in p's
    hand, else 0."""
    return forall(Player, lambda p: forall(range(52), lambda i: seq_get(b[p], i) == ite(
        card_in(ALL[i], hand(h, p)), 1, 0)))


@contract('bridge_env.hands.Hands.to_binary', props=P)
class _to_binary:
    returns = BinDict
    modifies = []

    def ensures_encoding(self, result):
        return binary_of(self, result)


def decoded_from(h, b):
    """h is what the decoder makes of b: card i goes to the first seat in N, E, S, W order whose
    slot i is 1, to nobody if there is none."""
    def owner_is(p, i):
        before = [q for q in (N, E, S, W)][:G.SEAT_NO[p]]
        return conj(seq_get(b[p], i) == 1, forall(before, lambda q: seq_get(b[q], i) != 1))
    return forall(Player, lambda p: forall(range(52), lambda i: iff(card_in(ALL[i], hand(h, p)),
                                                                    owner_is(p, i))))


@contract('bridge_env.hands.Hands.convert_binary', props=P)
class _convert_binary:
    params = dict(cls=OneOf([Hands]), binary_hands=BinDict)
    returns = HandsShape
    modifies = []

    def ensures_decoding(binary_hands, result):
        return decoded_from(result, binary_hands)


@lemma('C14-binary-round-trip', props=P)
class _:
    params = dict(h=HandsShape)
    note = 'for every deal whose four hands are pairwise disjoint (any sizes)'

    def requires_disjoint(h):
        return sets_disjoint(h.north, h.east, h.south, h.west)

    def ensures_round_trip(h):
        return Hands.convert_binary(h.to_binary()) == h


# ---- numpy vectors -----------------------------------------------------------------------------

NpDict = Dict({p: Vec(52) for p in Player})


def np_binary_of(h, b):
    return forall(Player, lambda p: forall(range(52), lambda i: vec_get(b[p], i) == ite(
        card_in(ALL[i], hand(h, p)), 1, 0)))


@contract('bridge_env.hands.Hands.to_np_binary', props=P)
class _to_np:
    params = dict(dtype=Const(None))
    returns = NpDict
    modifies = []
    note = ('assumed numpy contracts: zeros(n) is n zeros; a[list_of_ints] = 1 stores 1 at exactly '
            'those indices (also for the empty list); dtype does not affect 0/1 values')

    def ensures_encoding(self, result):
        return np_binary_of(self, result)


@contract('bridge_env.hands.Hands.convert_np_binary', props=P)
class _from_np:
    params = dict(cls=OneOf([Hands]), binary_hands=NpDict)
    returns = HandsShape
    modifies = []
    note = 'assumed numpy contract: where(v == 1)[0] lists exactly the indices whose slot equals 1'

    def ensures_decoding(binary_hands, result):
        return forall(Player, lambda p: forall(range(52), lambda i: iff(
            card_in(ALL[i], hand(result, p)), vec_get(binary_hands[p], i) == 1)))


@lemma('C14-numpy-round-trip', props=P)
class _:
    params = dict(h=HandsShape)

    def ensures_round_trip(h):
        return Hands.convert_np_binary(h.to_np_binary(None)) == h


# ---- JSON card lists ---------------------------------------------------------------------------

class CardTexts(Shape):
    """A JSON hand: the texts of a set of cards in ascending card order (guarded list)."""

    def sample(self, rng):
        k = rng.choice([0, 1, 13, 13, 13, 20])
        picks = set(rng.sample(range(52), k))
        return V.SList([G.card_text(ALL[i].rank, ALL[i].suit) for i in range(52) if i in picks])

    def fresh(self, ctx, name):
        return V.GList([(V.mk_bool(ctx.fresh_bool(f'{name}_{i}')),
                         G.card_text(ALL[i].rank, ALL[i].suit)) for i in range(52)])


JsonDeal = Dict({k: CardTexts() for k in 'NESW'})


def json_of(h, d):
    """d is the JSON form of h: per seat the ascending list of card texts."""
    return forall(Player, lambda p: d[LETTER[p]] == [G.card_text(c.rank, c.suit)
                                                     for c in sorted(hand(h, p))])


@contract('bridge_env.data_handler.json_handler.writer.convert_deal', props=P + ['C12', 'C17'])
class _convert_deal:
    params = dict(deal=HandsShape)
    returns = JsonDeal
    modifies = []

    def ensures_ascending_card_texts(deal, result):
        return json_of(deal, result)


@contract('bridge_env.data_handler.json_handler.parser.hands_parser', props=P + ['C12', 'C17'])
class _hands_parser:
    params = dict(hands=JsonDeal)
    returns = HandsShape
    modifies = []

    def ensures_the_cards_named(hands, result):
        return forall(Player, lambda p: forall(ALL, lambda c: iff(
            card_in(c, hand(result, p)),
            exists(hands[LETTER[p]], lambda t: t == G.card_text(c.rank, c.suit)))))


@lemma('C14-json-round-trip', props=P + ['C12', 'C17'])
class _:
    params = dict(h=HandsShape)

    def ensures_round_trip(h):
        return hands_parser(convert_deal(h)) == h


# ---- random dealer -----------------------------------------------------------------------------

@contract('bridge_env.hands.Hands.generate_random_hands', props=P)
class _grh:
    params = dict(cls=OneOf([Hands]))
    returns = HandsShape
    modifies = []
    note = ('assumed contract of random.shuffle: the list becomes a permutation of itself (a '
            'bijection between cards and positions)')

    def ensures_disjoint(result):
        return sets_disjoint(result.north, result.east, result.south, result.west)

    def ensures_cover_the_pack(result):
        return forall(ALL, lambda c: disj(card_in(c, result.north), card_in(c, result.east),
                                          card_in(c, result.south), card_in(c, result.west)))

    def ensures_thirteen_each(result):
        return conj(len(result.north) == 13, len(result.east) == 13, len(result.south) == 13,
                    len(result.west) == 13)

"""C12 / C13 / C17 (JSON side): the streaming JSON writers and the parser's record converters."""
from bridge_env import Bid, Card, Contract, Hands, Pair, Player, Suit, TrickHistory, Vul
from bridge_env.data_handler.abstract_classes import BoardLog, BoardSetting
from bridge_env.data_handler.json_handler.parser import (JsonParser, convert_board_log,
                                                         convert_board_setting)
from bridge_env.data_handler.json_handler.writer import (JsonBoardSettingWriter, JsonLogWriter,
                                                         JsonWriter)
from bridge_env.data_handler.pbn_handler.writer import Scoring
from pyvc.dsl import (Bool, Card as CardS, CardSet, Const, Dict, Enum, EnumElem, Ext, Int, Obj, OpaqueVal, TraceReset, TracePrefix, LoopContract,
                      OneOf, Opt, Seq, Shape, TraceList, Tuple, contract, klass, lemma, transparent)
from pyvc.speclib import (conj, disj, forall, iff, implies, ite, json_conforms, json_text,
                          load_schema, same)
from pyvc import strings as XS
import spec.jsonlog as J
import spec.table as G
from contracts.score import ContractS, passed_out, valid_contract
from contracts.playing import HandsShape, PHShape, TrickElem

P12 = ['C12', 'C13', 'C17', 'C08']

FileShape = Ext('file', dict(out=TraceList()))


class Name(Shape):
    """An arbitrary text value (player name, board id): opaque."""

    def sample(self, rng):
        return rng.choice(['', 'a', 'Team A', 'ünï cödé', 'x  y', '"q"', '12'])

    def fresh(self, ctx, name):
        return XS.XStr.atom(ctx.fresh_name(name))


DdaShape = Dict({p: Dict({s: Int() for s in Suit}) for p in Player})


def _writer_shape(cls):
    return Obj(cls, dict(_writer=FileShape, _open=Bool(), _first_line=Bool()))


@klass('bridge_env.data_handler.json_handler.writer.JsonWriter', props=P12)
class _JW:
    shape = _writer_shape(JsonWriter)


@klass('bridge_env.data_handler.json_handler.writer.JsonLogWriter', props=P12)
class _JLW:
    shape = _writer_shape(JsonLogWriter)


@klass('bridge_env.data_handler.json_handler.writer.JsonBoardSettingWriter', props=['C17'])
class _JSW:
    shape = _writer_shape(JsonBoardSettingWriter)


def out(w):
    return w._writer.out


def _tag_param():
    return OneOf([JsonLogWriter, JsonBoardSettingWriter])


transparent('bridge_env.data_handler.json_handler.writer.JsonWriter.__enter__', props=['C12', 'C13', 'C17'])
transparent('bridge_env.data_handler.json_handler.writer.JsonWriter.__exit__', props=['C12', 'C13', 'C17'])
transparent('bridge_env.data_handler.json_handler.writer.JsonWriter.__init__',
            'bridge_env.data_handler.json_handler.writer.JsonLogWriter.__init__',
            'bridge_env.data_handler.json_handler.writer.JsonBoardSettingWriter.__init__', props=P12)


# ---- framing: open / _write_content / close ------------------------------------------------------

@contract('bridge_env.data_handler.json_handler.writer.JsonWriter.open', props=P12)
class _open:
    params = dict(self=_writer_shape(JsonLogWriter))
    modifies = ['self._open', 'self._first_line', 'self._writer.out']
    note = 'verified for TAG = "logs"; the body only interpolates self.TAG'

    def ensures_header_written(self, old):
        return conj(out(self) == out(old.self) + ['{"' + self.TAG + '": [\n'],
                    self._open, self._first_line)


@contract('bridge_env.data_handler.json_handler.writer.JsonWriter.close', props=P12)
class _close:
    params = dict(self=_writer_shape(JsonLogWriter))
    modifies = ['self._open', 'self._writer.out']

    # the array and the object are closed; after the last record a line break comes first
    def ensures_footer_written(self, old):
        return conj(out(self) == out(old.self) + [ite(old.self._first_line, J.FOOTER_EMPTY, J.FOOTER)],
                    not self._open, iff(self._first_line, old.self._first_line))


@contract('bridge_env.data_handler.json_handler.writer.JsonWriter._write_content', props=P12)
class _write_content:
    params = dict(self=_writer_shape(JsonLogWriter),
                  d=Dict({'board_id': Name()}))
    modifies = ['self._first_line', 'self._writer.out']
    note = 'any JSON-able dict d; verified with an opaque one-field dict (the body only dumps it)'

    # one record text, preceded by the separator unless it is the first record
    def ensures_one_record_appended(self, d, old):
        return conj(out(self) == out(old.self) + ite(old.self._first_line, [json_text(d)],
                                                    [J.SEPARATOR, json_text(d)]),
                    not self._first_line, iff(self._open, old.self._open))

    # C12/C17 ("any sequence of writes forms one valid document"): a record that cannot be
    # serialised (scenario [value-not-serialisable]: json.dumps raises TypeError) is refused as a
    # whole -- nothing of it, and no separator, reaches the document, and the writer goes on as if
    # the call had not been made
    def excensures_failed_write_leaves_the_document_unchanged(self, old):
        return same(self, old.self)


from pyvc.dsl import REGISTRY as _REGW
_REGW.fns['bridge_env.data_handler.json_handler.writer.JsonWriter._write_content'].variants = {
    'value-not-serialisable': dict(params=dict(d=Const({'board_id': {1, 2}})),
                                   raises={TypeError: ('onlyif', None)}, never_returns=True)}


# ---- records -----------------------------------------------------------------------------------

@contract('bridge_env.data_handler.json_handler.writer.JsonBoardSettingWriter.write',
          props=['C17'])
class _write_setting:
    params = dict(board_id=Name(), dealer=Enum(Player), deal=HandsShape, vul=Enum(Vul),
                  dda=Opt(DdaShape))
    raises = {Exception: 'iff'}
    modifies = ['self._first_line', 'self._writer.out']

    def raises_Exception(self):
        return not self._open

    def excensures_nothing_written(self, old):
        return same(self, old.self)

    def ensures_one_setting_record(self, board_id, dealer, deal, vul, dda, old):
        rec = json_text(J.setting_record(board_id, dealer, deal, vul, dda))
        return conj(out(self) == out(old.self) + ite(old.self._first_line, [rec], [J.SEPARATOR, rec]),
                    not self._first_line, self._open)

    def ensures_record_conforms_to_published_schema(board_id, dealer, deal, vul, dda):
        return json_conforms(J.setting_record(board_id, dealer, deal, vul, dda),
                             SETTING_RECORD_SCHEMA)



JH = ('data_handler', 'json_handler')
LOG_RECORD_SCHEMA = load_schema(JH + ('log_format.schema.json',), ('properties', 'logs', 'items'))
SETTING_RECORD_SCHEMA = load_schema(JH + ('board_setting_format.schema.json',),
                                    ('properties', 'board_settings', 'items'))


def _has_declarer(contract):
    return implies(not passed_out(contract), contract.declarer is not None)


@contract('bridge_env.data_handler.json_handler.writer.JsonLogWriter.write', props=P12)
class _write_log:
    params = dict(board_id=Name(), west_player=Name(), north_player=Name(), east_player=Name(),
                  south_player=Name(), dealer=Enum(Player), deal=HandsShape,
                  scoring=OneOf([Scoring.IMP, Scoring.MP]), bid_history=Seq(EnumElem(Bid)),
                  contract=ContractS, play_history=Opt(PHShape), taken_trick_num=Opt(Int()),
                  scores=Dict({Pair.NS: Int(), Pair.EW: Int()}), dda=Opt(DdaShape))
    raises = {Exception: 'iff'}
    modifies = ['self._first_line', 'self._writer.out']

    def requires_contract_of_a_finished_auction(contract):
        return conj(valid_contract(contract), _has_declarer(contract))

    def raises_Exception(self):
        return not self._open

    # a refused write leaves the file untouched (C13)
    def excensures_nothing_written(self, old):
        return same(self, old.self)

    # exactly one whole record, with the fields the log format prescribes (C12, C08)
    def ensures_one_log_record(self, board_id, west_player, north_player, east_player,
                               south_player, dealer, deal, scoring, bid_history, contract,
                               play_history, taken_trick_num, scores, dda, old):
        tricks = None if play_history is None else play_history._history
        rec = json_text(J.log_record(board_id, west_player, north_player, east_player, south_player,
                                     dealer, deal, scoring, bid_history, contract, tricks,
                                     taken_trick_num, scores, dda))
        return conj(out(self) == out(old.self) + ite(old.self._first_line, [rec], [J.SEPARATOR, rec]),
                    not self._first_line, self._open)

    # ... and that record conforms to the published log schema (C12)
    def ensures_record_conforms_to_published_schema(board_id, west_player, north_player,
                                                    east_player, south_player, dealer, deal,
                                                    scoring, bid_history, contract, play_history,
                                                    taken_trick_num, scores, dda):
        tricks = None if play_history is None else play_history._history
        return json_conforms(J.log_record(board_id, west_player, north_player, east_player,
                                          south_player, dealer, deal, scoring, bid_history,
                                          contract, tricks, taken_trick_num, scores, dda),
                             LOG_RECORD_SCHEMA)


# ---- parser: records back to value objects (C12, C17) ------------------------------------------

def _rec_params(ctx, it, with_log):
    sh = dict(board_id=Name(), dealer=Enum(Player), deal=HandsShape, vul=Enum(Vul), dda=Opt(DdaShape))
    a = {k: v.fresh(ctx, k) for k, v in sh.items()}
    if not with_log:
        data = it.run_body(J.setting_record, dict(a))
        return dict(data=data, **{'ghost_' + k: v for k, v in a.items()})
    lg = dict(west_player=Name(), north_player=Name(), east_player=Name(), south_player=Name(),
              scoring=OneOf([Scoring.IMP, Scoring.MP]), bid_history=Seq(EnumElem(Bid)),
              contract=ContractS, tricks=Opt(Seq(TrickElem)), taken_trick_num=Opt(Int()),
              scores=Dict({Pair.NS: Int(), Pair.EW: Int()}))
    b = {k: v.fresh(ctx, k) for k, v in lg.items()}
    c = b['contract']
    ctx.assume(it.truth(it.run_body(valid_contract, {'c': c})))
    ctx.assume(it.truth(it.run_body(_log_domain, {'c': c, 'vul': a['vul'], 'tricks': b['tricks'],
                                                  'taken': b['taken_trick_num']})))
    args = dict(board_id=a['board_id'], west_player=b['west_player'],
                north_player=b['north_player'], east_player=b['east_player'],
                south_player=b['south_player'], dealer=a['dealer'], deal=a['deal'],
                scoring=b['scoring'], bid_history=b['bid_history'], contract=c, tricks=b['tricks'],
                taken_trick_num=b['taken_trick_num'], scores=b['scores'], dda=a['dda'])
    data = it.run_body(J.log_record, dict(args))
    out = dict(data=data)
    out.update({'ghost_' + k: v for k, v in args.items()})
    return out


def _log_domain(c, vul, tricks, taken):
    """What the table manager writes: the contract carries the board's vulnerability; a declarer
    exactly when the board was not passed out; play and trick count exactly then too."""
    return conj(c.vul is vul, iff(passed_out(c), c.declarer is None),
                iff(passed_out(c), tricks is None), iff(passed_out(c), taken is None))


def _setting_params(ctx, it):
    return _rec_params(ctx, it, False)


def _log_params(ctx, it):
    return _rec_params(ctx, it, True)


def _sample_setting(rng, log=False):
    from pyvc import native
    h = Hands.generate_random_hands()
    dda = None if rng.random() < 0.5 else {p: {s: rng.randint(0, 13) for s in Suit} for p in Player}
    a = dict(board_id=rng.choice(['1', 'b-7', 'x y', 'ü']), dealer=rng.choice(list(Player)), deal=h,
             vul=rng.choice(list(Vul)), dda=dda)
    if not log:
        return dict(data=J.setting_record(**a), **{'ghost_' + k: v for k, v in a.items()})
    from contracts.bidding import sample as sample_bp
    from contracts.playing import sample_wh
    bp = sample_bp(rng)
    while not bp.has_done():
        bp.take_bid(Bid.Pass)
    c = bp.contract()
    c = Contract(c.final_bid, c.x, c.xx, a['vul'], c.declarer)
    tricks = taken = None
    if not c.is_passed_out():
        import random as _r
        pp = sample_wh(_r.Random(rng.random()))
        tricks = list(pp.playing_history.history)
        taken = len(tricks)
    args = dict(board_id=a['board_id'], west_player='w', north_player='n', east_player='e',
                south_player='s', dealer=a['dealer'], deal=h, scoring=Scoring.IMP,
                bid_history=list(bp.bid_history), contract=c, tricks=tricks, taken_trick_num=taken,
                scores={Pair.NS: 50, Pair.EW: -50}, dda=dda)
    out = dict(data=J.log_record(**args))
    out.update({'ghost_' + k: v for k, v in args.items()})
    return out


@contract('bridge_env.data_handler.json_handler.parser.convert_board_setting', props=['C12', 'C14', 'C17'])
class _convert_setting:
    at_calls = 'abstract'
    abstract_raises = (Exception,)
    fresh_params = _setting_params
    sample_params = lambda rng: _sample_setting(rng, False)
    params_from_ghosts = lambda g: dict(data=J.setting_record(**{k[len('ghost_'):]: v
                                                                 for k, v in g.items()}))
    returns = Obj(BoardSetting, dict(hands=HandsShape, dealer=Enum(Player), vul=Enum(Vul),
                                     board_id=Name(), dda=Opt(DdaShape)), frozen=True)
    modifies = []
    note = 'domain: the record the format prescribes for ANY board (all deals, ids, dda tables)'

    def ensures_same_board(result, ghost_board_id, ghost_dealer, ghost_deal, ghost_vul, ghost_dda):
        return conj(result.board_id == ghost_board_id, result.dealer is ghost_dealer,
                    result.hands == ghost_deal, result.vul is ghost_vul,
                    same(result.dda, ghost_dda))


@contract('bridge_env.data_handler.json_handler.parser.convert_board_log', props=['C12', 'C14'])
class _convert_log:
    at_calls = 'abstract'
    abstract_raises = (Exception,)
    returns = OpaqueVal('board_log')
    fresh_params = _log_params
    sample_params = lambda rng: _sample_setting(rng, True)
    params_from_ghosts = lambda g: dict(data=J.log_record(**{k[len('ghost_'):]: v
                                                             for k, v in g.items()}))
    modifies = []
    note = ('domain: the record the format prescribes for any finished board as the table manager '
            'logs it (contract carries the board vulnerability; declarer / play / tricks present '
            'exactly when the board was not passed out)')

    def ensures_board_fields(result, ghost_board_id, ghost_dealer, ghost_deal, ghost_contract,
                             ghost_dda):
        return conj(result.board_id == ghost_board_id, result.dealer is ghost_dealer,
                    result.hands == ghost_deal, result.vul is ghost_contract.vul,
                    same(result.dda, ghost_dda))

    def ensures_players(result, ghost_west_player, ghost_north_player, ghost_east_player,
                        ghost_south_player):
        return conj(result.players[Player.N] == ghost_north_player,
                    result.players[Player.E] == ghost_east_player,
                    result.players[Player.S] == ghost_south_player,
                    result.players[Player.W] == ghost_west_player)

    def ensures_auction_and_contract(result, ghost_bid_history, ghost_contract):
        c, g = result.contract, ghost_contract
        return conj(result.bid_history == ghost_bid_history,
                    passed_out(c) == passed_out(g),
                    True if passed_out(g) else conj(
                        c.final_bid is g.final_bid,
                        ite(c.xx, 2, ite(c.x, 1, 0)) == ite(g.xx, 2, ite(g.x, 1, 0))),
                    c.vul is g.vul, c.declarer is g.declarer, result.declarer is g.declarer)

    # the play: every trick with its leader as a seat and its cards as cards
    def ensures_play_with_leaders_as_seats(result, ghost_tricks):
        return (result.play_history is None) if ghost_tricks is None else \
            result.play_history == ghost_tricks

    def ensures_result(result, ghost_taken_trick_num, ghost_scoring):
        return conj(same(result.taken_trick, ghost_taken_trick_num),
                    result.score_type == ghost_scoring.value)

    # per-side scores keyed by the library's side objects
    def ensures_scores_by_side(result, ghost_scores):
        return result.scores == ghost_scores


# ---- the list level: every record of the document is converted once, in order --------------------

from pyvc.speclib import abstract_result, last_call_raised

RecordList = Ext('boardlist', dict(n=Int(0), reads=TraceList(), item_shape=Const(OpaqueVal('record'))))
LogDocument = Ext('jsonfile', dict(doc=Dict({'logs': RecordList})))
SettingsDocument = Ext('jsonfile', dict(doc=Dict({'board_settings': RecordList})))


def _list_inv():
    return True


def _log_converted_in_place(outputs, d, iter):
    # behind the records of the earlier iterations: document order is kept
    return outputs == iter.outputs + [abstract_result(convert_board_log, d)]


def _setting_converted_in_place(outputs, d, iter):
    return outputs == iter.outputs + [abstract_result(convert_board_setting, d)]


@contract('bridge_env.data_handler.json_handler.parser.JsonParser.parse_board_logs', props=['C12'])
class _parse_board_logs:
    params = dict(self=Obj(JsonParser, {}), fp=LogDocument)
    raises = {Exception: 'onlyif'}      # a record outside the format
    exc_havoc = True
    modifies = ['fp']
    loops = {0: LoopContract(invariant=_list_inv, havoc_heap=dict(outputs=TracePrefix()),
                             body_ensures=dict(record_converted_in_place=_log_converted_in_place))}
    # C12: nothing but a record outside the format makes the reader give up
    def excensures_only_a_record_is_refused(frame):
        return last_call_raised(None, convert_board_log)

    sample_params = lambda rng: _sample_document(rng, 'logs')
    native_excensures_well_formed_document_accepted = (
        'excpost/only_a_record_is_refused', lambda old, exc_value: not _is_document(old.fp))
    native_ensures_all_boards_in_order = (
        'loop0.body/record_converted_in_place',
        lambda old, result: not _is_document(old.fp) or same(
            result, [convert_board_log(d) for d in _records(old.fp)]))

    note = ('the document is what json.load returns (assumed: for a file written by JsonLogWriter, '
            '{"logs": [the records written, in order]}); each record is converted by '
            'convert_board_log (its own contract) exactly once, in order')


@contract('bridge_env.data_handler.json_handler.parser.JsonParser.parse_board_settings',
          props=['C12', 'C17'])
class _parse_board_settings_json:
    params = dict(self=Obj(JsonParser, {}), fp=OneOf([None]))
    fresh_params = lambda ctx, it: dict(fp=(LogDocument if ctx.decide_among(
        _kk(ctx), [0, 1]) == 0 else SettingsDocument).fresh(ctx, 'fp'))
    at_calls = 'contract'
    raises = {Exception: 'onlyif'}
    exc_havoc = True
    modifies = ['fp']
    loops = {0: LoopContract(invariant=_list_inv, havoc_heap=dict(outputs=TracePrefix()),
                             body_ensures=dict(
                                 record_converted_in_place=_setting_converted_in_place))}
    # C12/C17: both kinds of document are accepted whatever the number of boards (none included);
    # nothing but a record outside the format makes the reader give up
    def excensures_only_a_record_is_refused(frame):
        return last_call_raised(None, convert_board_setting)

    # (native forms, for documents that can be made real)
    sample_params = lambda rng: _sample_document(rng, rng.choice(['logs', 'board_settings']))
    native_excensures_well_formed_document_accepted = (
        'excpost/only_a_record_is_refused', lambda old, exc_value: not _is_document(old.fp))
    native_ensures_all_boards_in_order = (
        'loop0.body/record_converted_in_place',
        lambda old, result: not _is_document(old.fp) or same(
            result, [convert_board_setting(d) for d in _records(old.fp)]))

    note = ('a game-log document ("logs") and a board-settings document ("board_settings") are '
            'both accepted; every record is converted by convert_board_setting once, in order')


def _sample_document(rng, key):
    """A real document of 0..3 records as the format prescribes them."""
    import io
    import json
    recs = [_sample_setting(rng, key == 'logs')['data'] for _ in range(rng.choice([0, 0, 1, 2, 3]))]
    return dict(fp=io.StringIO(json.dumps({key: recs})))


def _is_document(fp):
    return hasattr(fp, 'getvalue')


def _records(fp):
    import json
    doc = json.loads(fp.getvalue())
    return doc['logs'] if 'logs' in doc else doc['board_settings']


def _kk(ctx):
    import z3
    k = ctx.fresh_int('doc_kind')
    ctx.assume_type(z3.And(k >= 0, k <= 1))
    return k

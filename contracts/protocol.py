"""C19 (messages): every builder against the protocol spec, every parser against the value the
message encodes -- for every seat, every call / card / hand / board header / team names, in either
card notation, in any letter case, and with an alert suffix on a call."""
import z3

from bridge_env import Bid, Card, Hands, Player, Suit, Vul
from bridge_env.network_bridge.client import Client
from bridge_env.network_bridge.server import PlayerThread, Server
from bridge_env.network_bridge.socket_interface import MessageInterface
from pyvc.dsl import (Bool, Card as CardS, CardSet, Const, Enum, Int, Obj, OneOf, Opt, Shape, Text, Tuple,
                      contract, lemma, transparent)
from pyvc.speclib import card_in, conj, disj, forall, iff, implies, ite, same, seq_get
from pyvc import strings as XS
from pyvc import values as V
import spec.protocol as PR
import spec.table as G

P = ['C19']
FORMAL_NAMES = [G.FORMAL[p] for p in Player]
ALL = G.ALL_CARDS
NAME_EXCL = '"\n\r'


def _pick(ctx, name, values):
    k = ctx.fresh_int(name)
    ctx.assume_type(z3.And(k >= 0, k < len(values)))
    return values[ctx.decide_among(k, list(range(len(values))))]


def _name_atom(ctx, name):
    """A team name: any text without a double quote or a line break."""
    return XS.XStr.atom(ctx.fresh_name(name), excl=NAME_EXCL)


def _ws_atom(ctx, name, minlen):
    a = XS.Atom(ctx.fresh_name(name), only=' \t', minlen=minlen, note='blanks')
    if minlen:
        ctx.assume_type(z3.Length(a.t) >= 1)
    return XS.XStr([(True, a)])


# ---- builders ----------------------------------------------------------------------------------

@contract('bridge_env.network_bridge.server.Server.hand_to_str', props=P + ['C10'])
class _hand_to_str:
    params = dict(hand=CardSet())
    modifies = []

    def result(hand):
        return PR.enc_hand(hand)


@contract('bridge_env.network_bridge.server.Server.convert_vul', props=P + ['C10'])
class _convert_vul:
    params = dict(vul=Enum(Vul))
    modifies = []

    def result(vul):
        return PR.VUL_WORD[vul]


@contract('bridge_env.network_bridge.client.Client.create_bid_message', props=P + ['C11'])
class _create_bid_message:
    params = dict(bid=OneOf(list(Bid)), player_name=OneOf(FORMAL_NAMES))
    modifies = []

    def result(bid, player_name):
        return PR.enc_call(G.SEAT_OF_FORMAL[player_name], bid)


@contract('bridge_env.network_bridge.client.Client.card_str', props=P + ['C11'])
class _card_str:
    params = dict(card=OneOf(list(ALL)))
    modifies = []

    def result(card):
        return G.RANK_TEXT[card.rank] + PR.SUIT_LETTER[card.suit]


# ---- calls -------------------------------------------------------------------------------------

def _bid_msg(ctx, it):
    seat = _pick(ctx, 'seat', list(Player))
    call = _pick(ctx, 'call', list(G.CALLS_IN_ORDER))
    text = PR.enc_call(seat, call)
    return dict(content=XS.case_variants(ctx, text), player_name=G.FORMAL[seat], ghost_call=call,
                ghost_seat=seat)


def _bid_msg_sample(rng):
    seat, call = rng.choice(list(Player)), rng.choice(G.CALLS_IN_ORDER)
    text = ''.join(rng.choice([c.lower(), c.upper()]) for c in PR.enc_call(seat, call))
    return dict(content=text, player_name=G.FORMAL[seat], ghost_call=call, ghost_seat=seat)


@contract('bridge_env.network_bridge.socket_interface.MessageInterface.parse_bid', props=P)
class _parse_bid:
    at_calls = 'abstract'
    fresh_params = _bid_msg
    sample_params = _bid_msg_sample
    returns = Enum(Bid)
    modifies = []
    note = 'domain: the canonical call message of every seat and call in EVERY letter-case variant'

    def ensures_the_call_sent(result, ghost_call):
        return result is ghost_call


def _alert_msg(ctx, it):
    seat = _pick(ctx, 'seat', list(Player))
    call = _pick(ctx, 'call', list(G.CALLS_IN_ORDER))
    msg = XS.case_variants(ctx, PR.enc_call(seat, call))
    suffix = XS.str_concat(XS.str_concat(_ws_atom(ctx, 'ws1', 1), XS.case_variants(ctx, 'Alert.', 'al')),
                           _ws_atom(ctx, 'ws2', 0))
    return dict(message=XS.str_concat(msg, suffix), ghost_plain=msg)


def _alert_msg_sample(rng):
    seat, call = rng.choice(list(Player)), rng.choice(G.CALLS_IN_ORDER)
    cv = lambda t: ''.join(rng.choice([c.lower(), c.upper()]) for c in t)
    msg = cv(PR.enc_call(seat, call))
    return dict(message=msg + rng.choice([' ', '  ', '\t', ' \t ']) + cv('Alert.') +
                rng.choice(['', ' ', '  ']), ghost_plain=msg)


@contract('bridge_env.network_bridge.server.Server.remove_alert_word', props=P + ['C08'])
class _remove_alert:
    at_calls = 'abstract'
    abstract_raises = ()
    returns = Text(excl='\r')
    fresh_params = _alert_msg
    sample_params = _alert_msg_sample
    modifies = []
    note = ('domain: a call message in any letter case followed by blanks (spaces / tabs, at least '
            'one), "Alert." in any letter case, and optional trailing blanks')

    def ensures_alert_suffix_removed(result, ghost_plain):
        return result == ghost_plain


# ---- cards -------------------------------------------------------------------------------------

def _card_msg(ctx, it):
    seat = _pick(ctx, 'seat', list(Player))
    card = _pick(ctx, 'card', list(ALL))
    suit_first = _pick(ctx, 'notation', [False, True])
    text = PR.enc_card(seat, card, suit_first)
    return dict(content=XS.case_variants(ctx, text), player=seat, ghost_card=card)


def _card_msg_sample(rng):
    seat, card = rng.choice(list(Player)), rng.choice(ALL)
    text = ''.join(rng.choice([c.lower(), c.upper()])
                   for c in PR.enc_card(seat, card, rng.random() < 0.5))
    return dict(content=text, player=seat, ghost_card=card)


@contract('bridge_env.network_bridge.socket_interface.MessageInterface.parse_card', props=P)
class _parse_card:
    at_calls = 'abstract'
    abstract_raises = (Exception,)    # Exception / KeyError / IndexError / ValueError: all are Exceptions
    fresh_params = _card_msg
    sample_params = _card_msg_sample
    returns = CardS()
    modifies = []
    note = 'domain: every seat, card, both notations (5C / C5), every letter-case variant'

    def ensures_the_card_sent(result, ghost_card):
        return result == ghost_card


# ---- hands -------------------------------------------------------------------------------------

def _hand_msg(ctx, it):
    from pyvc.dsl import CardSet as CS
    hand = CS().fresh(ctx, 'hand')
    return dict(content=it.run_body(PR.enc_hand, {'hand': hand}), ghost_hand=hand)


def _hand_msg_sample(rng):
    k = rng.choice([0, 1, 5, 13, 13, 13, 26])
    hand = set(Card.int_to_card(i) for i in rng.sample(range(52), k))
    return dict(content=PR.enc_hand(hand), ghost_hand=hand)


@contract('bridge_env.network_bridge.client.Client.parse_hand', props=P + ['C11'])
class _parse_hand:
    at_calls = 'abstract'
    abstract_raises = (Exception,)
    fresh_params = _hand_msg
    sample_params = _hand_msg_sample
    returns = Tuple(CardSet(), Tuple(*[Int() for _ in range(52)]))
    modifies = []
    note = 'domain: the hand text of EVERY set of cards (any size, voids included)'

    def ensures_the_hand_sent(result, ghost_hand):
        return result[0] == ghost_hand

    def ensures_binary_form(result, ghost_hand):
        return forall(range(52), lambda i: seq_get(result[1], i) == ite(card_in(ALL[i], ghost_hand), 1, 0))


def _cards_msg(ctx, it):
    from pyvc.dsl import CardSet as CS
    hand = CS().fresh(ctx, 'hand')
    owner = _pick(ctx, 'owner', FORMAL_NAMES + ['Dummy'])
    text = it.run_body(PR.enc_cards_message, {'owner_name': owner, 'hand': hand})
    return dict(content=text, player_name=owner, ghost_text=it.run_body(PR.enc_hand, {'hand': hand}))


def _cards_msg_sample(rng):
    hand = set(Card.int_to_card(i) for i in rng.sample(range(52), 13))
    owner = rng.choice(FORMAL_NAMES + ['Dummy'])
    return dict(content=PR.enc_cards_message(owner, hand), player_name=owner,
                ghost_text=PR.enc_hand(hand))


@contract('bridge_env.network_bridge.client.Client.parse_cards', props=P + ['C11'])
class _parse_cards:
    at_calls = 'abstract'
    returns = Text(excl='\r')
    fresh_params = _cards_msg
    sample_params = _cards_msg_sample
    modifies = []

    def ensures_the_hand_text(result, ghost_text):
        return result == ghost_text


# ---- board header ------------------------------------------------------------------------------

def _header_msg(ctx, it):
    from pyvc.dsl import Int as I
    n = I(0).fresh(ctx, 'board_number')
    dealer = _pick(ctx, 'dealer', list(Player))
    vul = _pick(ctx, 'vul', list(Vul))
    return dict(content=it.run_body(PR.enc_header, dict(board_number=n, dealer=dealer, vul=vul)),
                ghost_n=n, ghost_dealer=dealer, ghost_vul=vul)


def _header_msg_sample(rng):
    n, dealer, vul = rng.choice([0, 1, 7, 16, 100, 12345]), rng.choice(list(Player)), \
        rng.choice(list(Vul))
    return dict(content=PR.enc_header(n, dealer, vul), ghost_n=n, ghost_dealer=dealer,
                ghost_vul=vul)


@contract('bridge_env.network_bridge.client.Client.parse_board', props=P + ['C11'])
class _parse_board:
    at_calls = 'abstract'
    fresh_params = _header_msg
    sample_params = _header_msg_sample
    returns = Tuple(Int(), Enum(Player), Enum(Vul))
    modifies = []
    note = 'domain: every board number >= 0 (unbounded), dealer and vulnerability'

    def ensures_the_header_sent(result, ghost_n, ghost_dealer, ghost_vul):
        return conj(result[0] == ghost_n, result[1] is ghost_dealer, result[2] is ghost_vul)


# ---- team names / connection request -----------------------------------------------------------

def _teams_msg(ctx, it):
    ns, ew = _name_atom(ctx, 'ns_name'), _name_atom(ctx, 'ew_name')
    return dict(content=it.run_body(PR.enc_teams, dict(ns_name=ns, ew_name=ew)), ghost_ns=ns,
                ghost_ew=ew)


def _teams_msg_sample(rng):
    names = ['', 'a', 'Team North/South', 'E/W : x', 'tricky E/W : team', 'ünï']
    ns, ew = rng.choice(names), rng.choice(names)
    return dict(content=PR.enc_teams(ns, ew), ghost_ns=ns, ghost_ew=ew)


@contract('bridge_env.network_bridge.client.Client.parse_team_names', props=P + ['C20'])
class _parse_team_names:
    at_calls = 'abstract'
    returns = Tuple(Text(excl=NAME_EXCL), Text(excl=NAME_EXCL))
    fresh_params = _teams_msg
    sample_params = _teams_msg_sample
    modifies = []
    note = 'domain: any two team names without a double quote or a line break'

    def ensures_both_names(result, ghost_ns, ghost_ew):
        return conj(result[0] == ghost_ns, result[1] == ghost_ew)


def _connect_msg(ctx, it):
    from pyvc.dsl import Int as I
    team = _name_atom(ctx, 'team')
    seat = _pick(ctx, 'seat', list(Player))
    ver = I(0).fresh(ctx, 'version')
    return dict(content=it.run_body(PR.enc_connect, dict(team=team, seat=seat, version=ver)),
                ghost_team=team, ghost_seat=seat, ghost_version=ver)


def _connect_msg_sample(rng):
    team = rng.choice(['', 'a', 'my team', 'x as North using protocol version 3'])
    seat, ver = rng.choice(list(Player)), rng.choice([0, 17, 18, 19, 180])
    return dict(content=PR.enc_connect(team, seat, ver), ghost_team=team, ghost_seat=seat,
                ghost_version=ver)


@contract('bridge_env.network_bridge.server.PlayerThread.parse_connection_info',
          props=P + ['C20'])
class _parse_connection_info:
    at_calls = 'abstract'
    returns = Tuple(Text(excl=NAME_EXCL), Enum(Player), Int(0))
    fresh_params = _connect_msg
    sample_params = _connect_msg_sample
    modifies = []

    def ensures_the_request(result, ghost_team, ghost_seat, ghost_version):
        return conj(result[0] == ghost_team, result[1] is ghost_seat, result[2] == ghost_version)


# ---- lead prompt -------------------------------------------------------------------------------

@contract('bridge_env.network_bridge.client.Client.parse_leader_message', props=P + ['C11'])
class _parse_leader:
    at_calls = 'abstract'
    returns = Enum(Player)
    params = dict(content=OneOf([PR.enc_lead_prompt(p) for p in Player] + [PR.enc_lead_prompt(None)]),
                  dummy=Enum(Player))
    modifies = []

    def result(content, dummy):
        return dummy if content == 'Dummy to lead' else G.SEAT_OF_FORMAL[content[:-len(' to lead')]]


# parse_match_base returns a match object; it is inlined (two lines: re.match + raise if None)
transparent('bridge_env.network_bridge.socket_interface.MessageInterface.parse_match_base',
            props=P + ['C11', 'C20'])

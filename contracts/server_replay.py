"""Native replays for the table manager: a real Server on localhost with four scripted bundled
clients (threads), driven to an abort; then the output file is inspected.  Used to replay C13
counter-models (any aborting session is a witness of a missing close) -- a few seconds of the
server's real sleeps."""
import json
import os
import pathlib
import socket
import tempfile
import threading
import time

from bridge_env import Bid, Card, Hands, Player, Vul
from bridge_env.data_handler.abstract_classes import BoardSetting
from bridge_env.data_handler.json_handler.parser import JsonParser
from bridge_env.network_bridge.bidding_system import BiddingSystem
from bridge_env.network_bridge.client import Client
from bridge_env.network_bridge.playing_system import RandomPlay
from bridge_env.network_bridge.server import Server


class Scripted(BiddingSystem):
    """Calls per board from a script {board index: [call, ...]} (Pass when exhausted)."""

    def __init__(self, script):
        self.script = script
        self.board = -1
        self.k = 0

    def next_board(self):
        self.board += 1
        self.k = 0

    def bid(self, hand, bidding_phase):
        if len(bidding_phase.players_bid_history[bidding_phase.active_player]) == 0 and self.k:
            pass
        calls = self.script.get(self.board, [])
        c = calls[self.k] if self.k < len(calls) else Bid.Pass
        self.k += 1
        return c


class SeatClient(Client):
    def _deal(self):
        self.bidding_system.next_board()
        super()._deal()


def _free_port():
    s = socket.socket()
    s.bind(('localhost', 0))
    p = s.getsockname()[1]
    s.close()
    return p


def run_session(boards, scripts, timeout=90):
    """boards: [BoardSetting]; scripts: {Player: {board index: [calls]}}.  Returns (exception raised
    by Server.run or None, text of the output file)."""
    port = _free_port()
    d = tempfile.mkdtemp(prefix='session_')
    out = pathlib.Path(d) / 'log.json'
    result = {}

    def server_main():
        try:
            with Server('localhost', port, out, boards) as srv:
                srv.run()
            result['exc'] = None
        except BaseException as e:      # noqa
            result['exc'] = e

    def client_main(p):
        try:
            with SeatClient(p, 'NS' if p in (Player.N, Player.S) else 'EW',
                            Scripted(scripts.get(p, {})), RandomPlay(), 'localhost', port) as c:
                c.run()
        except BaseException:           # noqa: a client of an aborted session dies with an error
            pass

    st = threading.Thread(target=server_main, daemon=True)
    st.start()
    time.sleep(0.3)
    cts = []
    for p in Player:
        t = threading.Thread(target=client_main, args=(p,), daemon=True)
        t.start()
        cts.append(t)
        time.sleep(0.05)
    st.join(timeout)
    text = out.read_text() if out.exists() else None
    try:
        os.remove(out)
        os.rmdir(d)
    except OSError:
        pass
    if st.is_alive():
        return 'TIMEOUT', text
    return result.get('exc'), text


def aborted_session_check():
    """Board 1 is passed out; on board 2 (dealer East) East opens 1C and South repeats 1C, an
    insufficient bid: the table manager abandons the session.  C13: the file must be a complete,
    parseable log containing exactly board 1."""
    import random
    random.seed(7)
    boards = [BoardSetting(Hands.generate_random_hands(), Player.N, Vul.NONE, 'b1'),
              BoardSetting(Hands.generate_random_hands(), Player.E, Vul.BOTH, 'b2')]
    scripts = {Player.E: {1: [Bid.C1]}, Player.S: {1: [Bid.C1]}}
    exc, text = run_session(boards, scripts)
    info = dict(scenario='board 1 passed out; board 2: East 1C, South 1C (insufficient)',
                server_raised=repr(exc), file_tail=(text or '')[-60:])
    failures = []
    if exc is None or exc == 'TIMEOUT':
        info['note'] = 'the session did not abort as scripted'
        return None, info
    try:
        doc = json.loads(text)
        ids = [r['board_id'] for r in doc['logs']]
        if ids != ['b1']:
            failures.append(('Server.run/excpost/aborted_session_leaves_a_closed_log',
                             f'the log lists boards {ids}, expected exactly [b1]'))
    except Exception as e:
        failures.append(('Server.run/excpost/aborted_session_leaves_a_closed_log',
                         f'the output file is not a parseable JSON document: {e!r}'))
    return failures, info


if __name__ == '__main__':
    print(aborted_session_check())

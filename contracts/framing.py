"""C19 (framing): MessageInterface.send_message / receive_message over a ghost byte stream.

Assumed contract of the socket (DESIGN 2.12): recv(1) returns the next byte of the peer's stream,
or b'' once the peer has closed and the stream is exhausted; sendall(b) appends b to what the peer
will read.  The stream `data` is the whole sequence of bytes the peer ever sends; `pos` is how many
of them have been consumed -- so how the bytes are split into packets is invisible by construction.
"""
from bridge_env.network_bridge.socket_interface import MessageInterface
from pyvc.dsl import (Bool, Byte1, Bytes, Const, DecodedStr, EmptyList, Ext, Int, IntElem, Obj, Seq, TraceList,
                      contract, lemma, LoopContract)
from pyvc.speclib import (conj, disj, forall_int, iff, implies, ite, new_object, new_socket, same,
                          seq_get, seq_len, sock_data, sock_pos, sock_sent, utf8)

P = ['C19']
CR, LF = 13, 10

SocketShape = Ext('socket', dict(data=Seq(IntElem()), pos=Int(0), sent=TraceList(),
                                 closed=Bool()))
MIShape = Obj(MessageInterface, dict(connection_socket=SocketShape))


def no_cr(d, a, b):
    return forall_int(a, b, lambda j: seq_get(d, j) != CR)


def same_bytes(bs, d, a, b):
    """bs == d[a:b]"""
    return conj(seq_len(bs) == b - a, forall_int(0, b - a, lambda j: seq_get(bs, j) == seq_get(d, a + j)))


def _rm_inv(self, byte_message, entry):
    s = self.connection_socket
    d = sock_data(s)
    p0 = sock_pos(entry.self.connection_socket)
    p = sock_pos(s)
    return conj(p0 <= p, p <= seq_len(d), no_cr(d, p0, p), same_bytes(_raw(byte_message), d, p0, p),
                same(sock_sent(s), sock_sent(entry.self.connection_socket)))


def _raw(b):
    from pyvc.speclib import bytes_seq
    return bytes_seq(b)


def _rm_variant(self):
    s = self.connection_socket
    return seq_len(sock_data(s)) - sock_pos(s)


def _stream_sample(rng):
    """Run-time stand-in inputs for the reader: streams as peers really send them -- protocol
    lines with runs of blanks, leading / trailing blanks, tabs, non-ASCII names, lone CR or LF
    inside, missing terminators, the peer closing in the middle of a line -- mixed with random
    bytes; the cursor anywhere in the stream."""
    from pyvc.ext import FakeSocket
    words = ['North', 'bids', '1NT', 'Alert.', 'Connecting', '"Team  A"', 'as', 'South', 'using',
             'protocol', 'version', '18', 'ready', 'for', 'teams', "East's", 'cards', ':', 'S', 'A',
             'K', '-.', 'passes', '', ' ', '\t', 'Zo\u00eb', '"  x "', 'to', 'lead', 'plays', 'd2']
    data = bytearray()
    starts = [0]
    for _ in range(rng.randint(0, 4)):
        if rng.random() < 0.25:
            line = bytes(rng.randrange(128) for _ in range(rng.randint(0, 12)))   # (valid UTF-8)
        else:
            seps = [' ', '  ', '   ', ' \t ']
            line = ''.join(rng.choice(words) + rng.choice(seps)
                           for _ in range(rng.randint(0, 7)))
            if rng.random() < 0.5:
                line = line.rstrip(' ')
            if rng.random() < 0.2:
                line = ' ' + line
            line = line.encode('utf-8')
        r = rng.random()
        term = b'\r\n' if r < 0.75 else (b'\r' if r < 0.82 else (b'\n' if r < 0.9 else b''))
        data += line + term
        starts.append(len(data))
    # (the cursor at a character boundary: the reader decodes what it has consumed)
    pos = rng.choice(starts) if rng.random() < 0.3 else 0
    return dict(self=MessageInterface(FakeSocket(bytes(data), pos)))


@contract('bridge_env.network_bridge.socket_interface.MessageInterface.receive_message',
          props=P + ['C20'])
class _receive:
    sample_params = _stream_sample
    params = dict(self=MIShape)
    returns = DecodedStr()
    raises = {Exception: 'onlyif'}
    modifies = ['self.connection_socket.pos']
    exc_havoc = True
    loops = {0: LoopContract(invariant=_rm_inv, variant=_rm_variant, entry_snapshot=True,
                             havoc=dict(byte_message=Bytes(), c=Byte1(), s=Byte1()),
                             havoc_heap={'self.connection_socket': Ext('socket', dict(pos=Int(0)))})}

    def requires_cursor_in_stream(self):
        s = self.connection_socket
        return conj(0 <= sock_pos(s), sock_pos(s) <= seq_len(sock_data(s)))

    # the next message is returned intact: everything up to the first CR, which must be followed
    # by LF; the cursor ends just behind that LF (so the following message starts there)
    def ensures_message_up_to_first_crlf(self, old, result):
        d = sock_data(self.connection_socket)
        p0 = sock_pos(old.self.connection_socket)
        p = sock_pos(self.connection_socket)
        return conj(p >= p0 + 2, p <= seq_len(d), seq_get(d, p - 2) == CR, seq_get(d, p - 1) == LF,
                    no_cr(d, p0, p - 2), same_bytes(utf8(result), d, p0, p - 2))

    def ensures_stream_untouched(self, old):
        return conj(same(sock_data(self.connection_socket), sock_data(old.self.connection_socket)),
                    same(sock_sent(self.connection_socket), sock_sent(old.self.connection_socket)))

    # an error is raised only when no complete message is there: a CR not followed by LF, or the
    # peer closed the connection (end of stream) before CR LF
    def excensures_only_without_a_complete_message(self, old):
        d = sock_data(self.connection_socket)
        p0 = sock_pos(old.self.connection_socket)
        p = sock_pos(self.connection_socket)
        k = ite(conj(p - 1 >= p0, seq_get(d, p - 1) == CR, no_cr(d, p0, p - 1)), p - 1, p - 2)
        bad_terminator = conj(k >= p0, k < seq_len(d), seq_get(d, k) == CR, no_cr(d, p0, k),
                              disj(k + 1 >= seq_len(d), seq_get(d, k + 1) != LF))
        closed_before_cr = conj(p == seq_len(d), no_cr(d, p0, p))
        return conj(p0 <= p, p <= seq_len(d), disj(bad_terminator, closed_before_cr))


@contract('bridge_env.network_bridge.socket_interface.MessageInterface.send_message',
          props=P + ['C20'])
class _send:
    params = dict(self=MIShape, message=Const('North ready for teams'))
    modifies = ['self.connection_socket.sent']
    note = 'the message text is arbitrary: the body only formats and forwards it'

    def ensures_message_and_crlf_appended(self, message, old):
        s = self.connection_socket
        return conj(sock_sent(s) == sock_sent(old.self.connection_socket) + [message + '\r\n'],
                    sock_pos(s) == sock_pos(old.self.connection_socket),
                    same(sock_data(s), sock_data(old.self.connection_socket)))


@lemma('C19-framing-round-trip', props=P)
class _:
    """If the unread part of the stream starts with the bytes B of a message (no CR inside)
    followed by CR LF, receive_message returns exactly B and leaves the cursor behind the LF --
    so by induction any sequence of messages is received intact and in order."""
    params = dict(data=Seq(IntElem()), p0=Int(0), B=Seq(IntElem()))

    def requires_stream_has_the_message(data, p0, B):
        n = seq_len(B)
        return conj(p0 + n + 2 <= seq_len(data),
                    forall_int(p0, p0 + n, lambda i: conj(seq_get(data, i) == seq_get(B, i - p0),
                                                          seq_get(data, i) != CR)),
                    seq_get(data, p0 + n) == CR, seq_get(data, p0 + n + 1) == LF)

    def ensures_received_intact(data, p0, B):
        mi = new_object(MessageInterface, dict(connection_socket=new_socket(data, p0)))
        try:
            r = mi.receive_message()
        except Exception:
            return False
        got = utf8(r)
        n = seq_len(B)
        return conj(sock_pos(mi.connection_socket) == p0 + n + 2, seq_len(got) == n,
                    forall_int(0, n, lambda j: seq_get(got, j) == seq_get(B, j)))

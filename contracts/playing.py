"""C04, C05, C06, C11(a): invariants and contracts of bridge_env.playing_phase."""
from bridge_env import Bid, Card, Contract, Hands, Pair, Player, Suit, Vul
from bridge_env.network_bridge.playing_system import RandomPlay
from bridge_env.playing_phase import (ObservedPlayingPhase, PlayingHistory, PlayingPhase,
                                      PlayingPhaseWithHands, TrickHistory)
from pyvc.dsl import (Bool, Card as CardS, CardElem, CardSet, Const, Dict, Enum, EnumElem, Int,
                      ListUpTo, Obj, OneOf, Opt, RecordElem, Ref, Seq, Tuple, contract, klass,
                      lemma, transparent, LoopContract)
from pyvc.speclib import (card_in, conj, disj, distinct, exists, forall, forall_int, iff, implies,
                          is_none, ite, new_object, opt_or, same, seq_appended, seq_get, seq_len, set_added,
                          set_ite, set_removed, sets_disjoint)
import spec.play as L
import spec.table as G
from contracts.score import ContractS, passed_out, valid_contract

NS, EW = Pair.NS, Pair.EW
ALL = G.ALL_CARDS

TrickElem = RecordElem(TrickHistory, [('leader', EnumElem(Player)),
                                      ('cards', ('tuple', [CardElem()] * 4))])
TrickShape = Obj(TrickHistory, dict(leader=Enum(Player),
                                    cards=Tuple(CardS(), CardS(), CardS(), CardS())), frozen=True)
PHShape = Obj(PlayingHistory, {'_history': Seq(TrickElem), '_contract': ContractS})
HandsShape = Obj(Hands, dict(north=CardSet(), east=CardSet(), south=CardSet(), west=CardSet()))

PPFields = {
    'contract': ContractS, 'trump': Enum(Suit), 'declarer': Enum(Player), 'dummy': Enum(Player),
    'leader': Enum(Player), 'active_player': Enum(Player), '_trick_cards': ListUpTo(CardS(), 3),
    'trick_num': Int(1), 'playing_history': PHShape, 'used_cards': CardSet(),
    'taken_tricks': Dict({NS: Int(0), EW: Int(0)}),
}
PPShape = Obj(PlayingPhase, PPFields)
PPWHShape = Obj(PlayingPhaseWithHands, {**PPFields, 'hands': HandsShape})
OPPShape = Obj(ObservedPlayingPhase, {**PPFields, '_player': Enum(Player), '_hand': CardSet(),
                                      '_dummy_hand': Opt(CardSet())})

P4 = ['C04']
P45 = ['C04', 'C05', 'C11']
P456 = ['C04', 'C05', 'C06', 'C11']


# ---- invariants --------------------------------------------------------------------------------

def pp_inv(s):
    k = len(s._trick_cards)
    return conj(
        # opening geometry (C04): dummy is declarer's partner
        s.dummy is G.partner(s.declarer),
        s.contract.declarer is s.declarer,
        not passed_out(s.contract), valid_contract(s.contract),
        s.trump is G.denom(opt_or(s.contract.final_bid, Bid.C1)),
        # turns pass clockwise within a trick
        0 <= k, k <= 3,
        s.active_player is G.rot(s.leader, k),
        # one recorded trick, and one trick credited, per completed trick
        s.trick_num >= 1,
        seq_len(s.playing_history._history) == s.trick_num - 1,
        s.taken_tricks[NS] + s.taken_tricks[EW] == s.trick_num - 1,
        s.taken_tricks[NS] >= 0, s.taken_tricks[EW] >= 0,
        forall(s._trick_cards, lambda c: card_in(c, s.used_cards)),
    )


def plays(s):
    """Number of cards played so far."""
    return 4 * (s.trick_num - 1) + len(s._trick_cards)


def trick_distinct(s):
    return distinct(*s._trick_cards)


def wh_inv(s):
    h = s.hands
    return conj(
        pp_inv(s),
        # C05: the remaining hands and the played cards are pairwise disjoint ...
        sets_disjoint(h.north, h.east, h.south, h.west, s.used_cards),
        # ... no card was played twice: as many distinct played cards as plays
        len(s.used_cards) == plays(s),
        trick_distinct(s),
    )


def ob_inv(s):
    """The observer cannot check the cards of the two hands it does not see, so no partition
    invariant is claimed for it beyond the public state (its own and dummy's hand are tied to the
    manager's by the lock-step lemma of C11)."""
    return pp_inv(s)


def _mk_contract(rng):
    while True:
        b = rng.choice(G.BIDS_IN_ORDER)
        x = rng.random() < 0.3
        xx = x and rng.random() < 0.3
        return Contract(b, x, xx, rng.choice(list(Vul)), rng.choice(list(Player)))


def _drive(pp, hands, rng, n):
    """Play n random cards following suit when possible (sometimes revoking)."""
    for _ in range(n):
        if pp.has_done():
            break
        p = pp.active_player
        hand = hands[p]
        if not hand:
            break
        cands = pp.current_available_cards(hand) if rng.random() < 0.8 else hand
        c = rng.choice(sorted(cands))
        yield p, c


def sample_pp(rng):
    pp = PlayingPhase(_mk_contract(rng))
    hands = Hands.generate_random_hands()
    for p, c in _drive(pp, hands, rng, rng.choice([0, 1, 2, 3, 4, 5, 7, 8, 23, 51, 52])):
        hands[p].remove(c)
        pp.play_card(c)
    return pp


def sample_wh(rng):
    hands = Hands.generate_random_hands()
    pp = PlayingPhaseWithHands(_mk_contract(rng), hands)
    for p, c in _drive(pp, hands, rng, rng.choice([0, 1, 2, 3, 4, 5, 7, 8, 23, 51, 52])):
        pp.play_card_by_player(c, p)
    return pp


def sample_ob(rng):
    import copy
    hands = Hands.generate_random_hands()
    me = rng.choice(list(Player))
    pp = ObservedPlayingPhase(_mk_contract(rng), me, copy.copy(hands[me]))
    n = rng.choice([0, 1, 2, 3, 4, 5, 7, 8, 23, 51, 52])
    for i, (p, c) in enumerate(_drive(pp, hands, rng, n)):
        pp.play_card_by_player(c, p)
        hands[p].remove(c)
        if i == 0 and (me is not pp.dummy or rng.random() < 0.3):
            pp.set_dummy_hand(copy.copy(hands[pp.dummy]))
    return pp


def _played(obj):
    """[(seat, card)] in order of play, reconstructed from the recorded tricks."""
    out = []
    for t in obj.playing_history._history:
        for i, c in enumerate(t.cards):
            out.append((G.rot(t.leader, i), c))
    for i, c in enumerate(obj._trick_cards):
        out.append((G.rot(obj.leader, i), c))
    return out


def trace_wh(obj):
    seq = _played(obj)
    init = {p: set(obj.hands[p]) for p in Player}
    for p, c in seq:
        init[p].add(c)
    fresh = PlayingPhaseWithHands(obj.contract, Hands(init[Player.N], init[Player.E],
                                                      init[Player.S], init[Player.W]))
    q = 'bridge_env.playing_phase.PlayingPhaseWithHands.play_card_by_player'
    return fresh, [(q, dict(card=c, player=p)) for p, c in seq]


def trace_ob(obj):
    seq = _played(obj)
    me = obj._player
    hand0 = set(obj._hand) | {c for p, c in seq if p is me}
    fresh = ObservedPlayingPhase(obj.contract, me, hand0)
    q = 'bridge_env.playing_phase.ObservedPlayingPhase.play_card_by_player'
    steps = []
    for i, (p, c) in enumerate(seq):
        if i == 1 and obj._dummy_hand is not None:
            d0 = set(obj._dummy_hand) | {c2 for p2, c2 in seq[1:] if p2 is obj.dummy}
            steps.append(('bridge_env.playing_phase.ObservedPlayingPhase.set_dummy_hand',
                          dict(dummy_hand=d0)))
        steps.append((q, dict(card=c, player=p)))
    if len(seq) <= 1 and obj._dummy_hand is not None:
        steps.append(('bridge_env.playing_phase.ObservedPlayingPhase.set_dummy_hand',
                      dict(dummy_hand=set(obj._dummy_hand))))
    return fresh, steps


def _choose_play(obj, hands, rng):
    """(seat, card) for the next random play: mostly legal, sometimes out of turn / not held /
    revoking."""
    p = obj.active_player
    hand = hands[p]
    r = rng.random()
    if r < 0.06:
        p = rng.choice(list(Player))
    if r > 0.94 or not hand:
        return p, Card.int_to_card(rng.randrange(52))
    led = obj._trick_cards[0] if obj._trick_cards else None
    follow = [c for c in hand if led is not None and c.suit is led.suit]
    cands = follow if (follow and rng.random() < 0.85) else list(hand)
    return p, rng.choice(sorted(cands))


def random_trace_wh(rng):
    hands = Hands.generate_random_hands()
    pp = PlayingPhaseWithHands(_mk_contract(rng), hands)
    q = 'bridge_env.playing_phase.PlayingPhaseWithHands.play_card_by_player'

    def step(obj, i):
        if obj.trick_num > 13 or i > 70:
            return None
        p, c = _choose_play(obj, obj.hands, rng)
        return q, dict(card=c, player=p)
    return pp, step


def random_trace_ob(rng):
    import copy
    hands = Hands.generate_random_hands()
    me = rng.choice(list(Player))
    pp = ObservedPlayingPhase(_mk_contract(rng), me, copy.copy(hands[me]))
    q = 'bridge_env.playing_phase.ObservedPlayingPhase.play_card_by_player'
    state = dict(told=False)

    def step(obj, i):
        if obj.trick_num > 13 or i > 80:
            return None
        played = 4 * (obj.trick_num - 1) + len(obj._trick_cards)
        if played == 1 and not state['told'] and (me is not obj.dummy or rng.random() < 0.3):
            state['told'] = True
            return ('bridge_env.playing_phase.ObservedPlayingPhase.set_dummy_hand',
                    dict(dummy_hand=copy.copy(hands[obj.dummy])))
        p = obj.active_player
        hand = hands[p]
        if not hand:
            return None
        led = obj._trick_cards[0] if obj._trick_cards else None
        follow = [c for c in hand if led is not None and c.suit is led.suit]
        c = rng.choice(sorted(follow or hand))
        if rng.random() < 0.05:           # an offer the observer must refuse or accept unchecked
            c = Card.int_to_card(rng.randrange(52))
            return q, dict(card=c, player=rng.choice(list(Player)))
        hand.discard(c)
        return q, dict(card=c, player=p)
    return pp, step


@klass('bridge_env.playing_phase.PlayingHistory', props=P45)
class _PH:
    shape = PHShape


@klass('bridge_env.playing_phase.PlayingPhase', props=P456)
class _PP:
    shape = PPShape
    inv = pp_inv
    sample = sample_pp


@klass('bridge_env.playing_phase.PlayingPhaseWithHands', props=['C05', 'C06', 'C11'])
class _PPWH:
    shape = PPWHShape
    inv = wh_inv
    sample = sample_wh
    trace = trace_wh
    random_trace = random_trace_wh


@klass('bridge_env.playing_phase.ObservedPlayingPhase', props=['C05', 'C06', 'C11'])
class _OPP:
    shape = OPPShape
    inv = ob_inv
    sample = sample_ob
    trace = trace_ob
    random_trace = random_trace_ob


transparent('bridge_env.hands.Hands.__getitem__', props=['C05', 'C06', 'C11', 'C14'])
transparent('bridge_env.playing_phase.PlayingPhase._record', props=P45)


# ---- PlayingHistory ----------------------------------------------------------------------------

@contract('bridge_env.playing_phase.PlayingHistory.__init__', props=P45)
class _:
    params = dict(contract=ContractS)

    def ensures_empty(self, contract):
        return conj(seq_len(self._history) == 0, same(self._contract, contract))


@contract('bridge_env.playing_phase.PlayingHistory.record', props=P45)
class _:
    params = dict(trick_num=Int(), trick_history=TrickShape)
    raises = {ValueError: 'iff'}
    modifies = ['self._history']

    def raises_ValueError(self, trick_num):
        return seq_len(self._history) != trick_num - 1

    def ensures_appended(self, trick_history, old):
        return seq_appended(self._history, old.self._history, trick_history)

    def excensures_unchanged(self, old):
        return same(self, old.self)


@contract('bridge_env.playing_phase.PlayingHistory.history', props=P45 + ['C12', 'C08'])
class _:
    modifies = []

    # an (immutable) copy of the recorded tricks, in order
    def result(self):
        return tuple(self._history)


@contract('bridge_env.playing_phase.PlayingHistory.__getitem__', props=P45)
class _:
    params = dict(item=Int())
    returns = TrickShape
    raises = {IndexError: 'iff'}
    modifies = []

    def raises_IndexError(self, item):
        return item < -seq_len(self._history) or item >= seq_len(self._history)

    def ensures_the_trick(self, item, result):
        return result == seq_get(self._history, ite(item < 0, item + seq_len(self._history), item))


# ---- calc_highest: any number of cards (loop invariant) ----------------------------------------

def _ch_inv(suit, cards, idx, n, highest):
    return conj(
        -1 <= n, n < idx,
        iff(n == -1, forall_int(0, idx, lambda j: seq_get(cards, j).suit is not suit)),
        implies(n == -1, highest == -1),
        implies(n >= 0, conj(seq_get(cards, n).suit is suit, highest == seq_get(cards, n).rank)),
        forall_int(0, idx, lambda j: implies(seq_get(cards, j).suit is suit,
                                             seq_get(cards, j).rank <= highest)))


@contract('bridge_env.playing_phase.PlayingPhase.calc_highest', props=P45)
class _calc_highest:
    params = dict(suit=Enum(Suit), cards=Seq(CardElem()))
    returns = Int()
    modifies = []
    loops = {0: LoopContract(invariant=_ch_inv, havoc=dict(n=Int(), highest=Int(), i=Int(),
                                                            card=CardS()))}

    def ensures_minus_one_iff_no_card_of_suit(suit, cards, result):
        n = seq_len(cards)
        return iff(result == -1, disj(suit is Suit.NT,
                                      forall_int(0, n, lambda j: seq_get(cards, j).suit is not suit)))

    def ensures_index_of_a_highest_card_of_suit(suit, cards, result):
        n = seq_len(cards)
        return True if result == -1 else conj(
            0 <= result, result < n, seq_get(cards, result).suit is suit,
            forall_int(0, n, lambda j: implies(seq_get(cards, j).suit is suit,
                                               seq_get(cards, j).rank <= seq_get(cards, result).rank)))


# ---- PlayingPhase ------------------------------------------------------------------------------

@contract('bridge_env.playing_phase.PlayingPhase.__init__', props=P45)
class _pp_init:
    params = dict(contract=ContractS)
    raises = {Exception: 'iff', AssertionError: 'iff'}

    def requires_valid(contract):
        return valid_contract(contract)

    def raises_Exception(contract):
        return passed_out(contract)

    def raises_AssertionError(contract):
        return (not passed_out(contract)) and contract.declarer is None

    # C04: the opening lead belongs to declarer's left-hand opponent, declarer's partner is dummy
    def ensures_opening(self, contract):
        d = opt_or(contract.declarer, Player.N)
        return conj(self.declarer is d, self.dummy is G.partner(d), self.leader is G.left(d),
                    self.active_player is G.left(d), self.trick_num == 1,
                    len(self._trick_cards) == 0, self.taken_tricks[NS] == 0,
                    self.taken_tricks[EW] == 0, seq_len(self.playing_history._history) == 0,
                    len(self.used_cards) == 0, same(self.contract, contract))


@contract('bridge_env.playing_phase.PlayingPhase.has_done', props=P45)
class _:
    modifies = []

    def result(self):
        return self.trick_num > 13

    # C04: after thirteen tricks the two sides' counts total thirteen and play is over
    def ensures_thirteen_tricks(self, result):
        return implies(self.trick_num == 14,
                       conj(result, self.taken_tricks[NS] + self.taken_tricks[EW] == 13))


@contract('bridge_env.playing_phase.PlayingPhase._check_active_player', props=P45)
class _:
    params = dict(player=Enum(Player))
    raises = {ValueError: 'iff'}
    modifies = []
    check_inv = False

    def raises_ValueError(self, player):
        return player is not self.active_player

    def result(self):
        return None


@contract('bridge_env.playing_phase.PlayingPhase._check_has_card', props=['C05', 'C11'])
class _:
    params = dict(player=Enum(Player), hand=CardSet(), card=CardS())
    raises = {ValueError: 'iff'}
    modifies = []

    def raises_ValueError(hand, card):
        return not card_in(card, hand)

    def result():
        return None


@contract('bridge_env.playing_phase.PlayingPhase._set_next_leader', props=P45)
class _snl:
    params = dict(self=Obj(PlayingPhase, {**PPFields, '_trick_cards': ListUpTo(CardS(), 4)}))
    skip_inv_at_call = True
    raises = {Exception: 'iff'}
    modifies = ['self.leader']
    loops = {0: LoopContract(unroll=3)}
    check_inv = False
    assume_inv = False

    def raises_Exception(self):
        return len(self._trick_cards) != 4

    # C04: the new leader is the seat that played a winning card of the trick
    def ensures_winner_leads(self, old):
        return L.is_winner(self.trump, self._trick_cards, L.distance(old.self.leader, self.leader))


def step_ok(s, o, card):
    """C04: the public state s after `card` is played in state o."""
    k = len(o._trick_cards)
    common = conj(same(s.contract, o.contract), s.trump is o.trump, s.declarer is o.declarer,
                  s.dummy is o.dummy, set_added(s.used_cards, o.used_cards, card),
                  same(s.playing_history._contract, o.playing_history._contract))
    if k < 3:
        return conj(common, s._trick_cards == o._trick_cards + [card], s.leader is o.leader,
                    s.active_player is G.left(o.active_player), s.trick_num == o.trick_num,
                    s.taken_tricks[NS] == o.taken_tricks[NS],
                    s.taken_tricks[EW] == o.taken_tricks[EW],
                    same(s.playing_history._history, o.playing_history._history))
    four = o._trick_cards + [card]
    w = L.distance(o.leader, s.leader)
    side = G.side(s.leader)
    return conj(common, len(s._trick_cards) == 0,
                L.is_winner(o.trump, four, w),
                s.active_player is s.leader,
                s.trick_num == o.trick_num + 1,
                s.taken_tricks[NS] == o.taken_tricks[NS] + ite(side is NS, 1, 0),
                s.taken_tricks[EW] == o.taken_tricks[EW] + ite(side is EW, 1, 0),
                seq_appended(s.playing_history._history, o.playing_history._history,
                             TrickHistory(o.leader, tuple(four))))


@contract('bridge_env.playing_phase.PlayingPhase.play_card', props=P45)
class _play_card:
    params = dict(card=CardS())
    modifies = ['self']

    def ensures_step(self, card, old):
        return step_ok(self, old.self, card)

    def result():
        return None


@contract('bridge_env.playing_phase.PlayingPhase.play_card_by_player', props=P45)
class _pcbp:
    params = dict(card=CardS(), player=Enum(Player))
    raises = {ValueError: 'iff'}
    modifies = ['self']

    def raises_ValueError(self, player):
        return player is not self.active_player

    def excensures_unchanged(self, old):
        return same(self, old.self)

    def ensures_step(self, card, old):
        return step_ok(self, old.self, card)


# ---- C06 ---------------------------------------------------------------------------------------

def playable_exactly(result, hand, led):
    """result == the follow-suit rule applied to hand (led: the card led, None when leading)."""
    if led is None:
        return forall(ALL, lambda c: iff(card_in(c, result), card_in(c, hand)))
    has = exists(ALL, lambda c: conj(card_in(c, hand), c.suit is led.suit))
    return forall(ALL, lambda c: iff(card_in(c, result),
                                     L.follows(has, card_in(c, hand), c.suit, led.suit)))


def playable_lemmas(result, hand):
    return conj(forall(ALL, lambda c: implies(card_in(c, result), card_in(c, hand))),
                implies(len(hand) > 0, len(result) > 0))


@contract('bridge_env.playing_phase.PlayingPhase.available_cards', props=['C06'])
class _avail:
    params = dict(hand=CardSet(), first_card=Opt(CardS()))
    returns = CardSet()
    modifies = []

    def ensures_follow_suit_rule(hand, first_card, result):
        return playable_exactly(result, hand, first_card)

    def ensures_subset_and_nonempty(hand, result):
        return playable_lemmas(result, hand)


def led_card(s):
    return None if len(s._trick_cards) == 0 else s._trick_cards[0]


@contract('bridge_env.playing_phase.PlayingPhase.current_available_cards', props=['C06'])
class _cur_avail:
    params = dict(hand=CardSet())
    returns = CardSet()
    modifies = []

    def ensures_follow_suit_rule(self, hand, result):
        return playable_exactly(result, hand, led_card(self))

    def ensures_subset_and_nonempty(hand, result):
        return playable_lemmas(result, hand)


@contract('bridge_env.playing_phase.PlayingPhaseWithHands.current_available_cards_in_hand',
          props=['C06'])
class _:
    params = dict(player=Enum(Player))
    returns = CardSet()
    modifies = []

    def ensures_follow_suit_rule(self, player, result):
        return playable_exactly(result, hand_of(self.hands, player), led_card(self))


@contract('bridge_env.playing_phase.ObservedPlayingPhase.current_available_cards_in_hand',
          props=['C06'])
class _:
    returns = CardSet()
    modifies = []

    def ensures_follow_suit_rule(self, result):
        return playable_exactly(result, self._hand, led_card(self))


@contract('bridge_env.playing_phase.ObservedPlayingPhase.current_available_cards_in_dummy_hand',
          props=['C06'])
class _:
    returns = CardSet()
    raises = {Exception: 'iff'}
    modifies = []

    def raises_Exception(self):
        return self._dummy_hand is None

    def ensures_follow_suit_rule(self, result):
        return playable_exactly(result, self._dummy_hand, led_card(self))


@contract('bridge_env.network_bridge.playing_system.RandomPlay.play', props=['C06'])
class _:
    params = dict(self=Obj(RandomPlay, {}), hand=CardSet(), playing_phase=PPShape)
    returns = CardS()
    modifies = []
    note = 'assumed: random.choice(xs) returns an element of xs; list(S) has the elements of S'

    def requires_phase_valid(playing_phase):
        return pp_inv(playing_phase)

    raises = {IndexError: 'iff'}

    # (nothing to choose from an empty hand: random.choice raises)
    def raises_IndexError(hand):
        return len(hand) == 0

    # C06: the bundled example player only ever chooses a playable card
    def ensures_chooses_a_playable_card(hand, playing_phase, result):
        led = led_card(playing_phase)
        if led is None:
            return card_in(result, hand)
        has = exists(ALL, lambda c: conj(card_in(c, hand), c.suit is led.suit))
        return L.follows(has, card_in(result, hand), result.suit, led.suit)


# ---- C05: full-information game ----------------------------------------------------------------

def hand_of(h, p):
    """The hand of seat p as a value (no identity; spec-side reading only)."""
    return set_ite(p is Player.N, h.north, set_ite(p is Player.E, h.east,
                                                   set_ite(p is Player.S, h.south, h.west)))


@contract('bridge_env.playing_phase.PlayingPhaseWithHands.__init__', props=['C05', 'C11'])
class _wh_init:
    at_calls = 'inline'      # the new object aliases the `hands` argument
    params = dict(contract=ContractS, hands=HandsShape)
    raises = {Exception: 'iff', AssertionError: 'iff'}
    check_inv = False
    note = ('the class invariant (disjoint hands) is a property of the deal passed in: '
            'established by requires_deal at the call sites that need it')

    def requires_valid(contract):
        return valid_contract(contract)

    def raises_Exception(contract):
        return passed_out(contract)

    def raises_AssertionError(contract):
        return (not passed_out(contract)) and contract.declarer is None

    def ensures_opening(self, contract, hands):
        d = opt_or(contract.declarer, Player.N)
        return conj(self.hands is hands, self.declarer is d, self.dummy is G.partner(d),
                    self.leader is G.left(d), self.active_player is G.left(d),
                    self.trick_num == 1, len(self._trick_cards) == 0,
                    len(self.used_cards) == 0, pp_inv(self))

    def ensures_invariant_for_a_proper_deal(self, hands):
        return implies(sets_disjoint(hands.north, hands.east, hands.south, hands.west),
                       wh_inv(self))


@contract('bridge_env.playing_phase.PlayingPhaseWithHands.play_card_by_player',
          props=['C05', 'C11'])
class _wh_play:
    params = dict(card=CardS(), player=Enum(Player))
    raises = {ValueError: 'iff'}
    modifies = ['self']
    split = 'card'

    # C05: accepted only from the seat on turn and only a card still in that seat's hand
    def raises_ValueError(self, card, player):
        return player is not self.active_player or not card_in(card, hand_of(self.hands, player))

    # a refused play changes nothing
    def excensures_unchanged(self, old):
        return same(self, old.self)

    def ensures_step(self, card, old):
        return step_ok(self, old.self, card)

    # exactly that card moves out of the hand into the played cards
    def ensures_card_moves(self, card, player, old):
        return conj(forall(Player, lambda p: ite(
            p is player, set_removed(self.hands[p], old.self.hands[p], card),
            same(self.hands[p], old.self.hands[p]))),
            not card_in(card, old.self.used_cards), card_in(card, self.used_cards))

    # hands + played cards still partition the same deal
    def ensures_deal_conserved(self, old):
        def anywhere(s, c):
            return disj(card_in(c, s.hands.north), card_in(c, s.hands.east),
                        card_in(c, s.hands.south), card_in(c, s.hands.west),
                        card_in(c, s.used_cards))
        return forall(ALL, lambda c: iff(anywhere(self, c), anywhere(old.self, c)))


@lemma('C05-after-52-plays-every-hand-is-empty', props=['C05'])
class _:
    params = dict(s=PPWHShape)

    def requires_inv(s):
        return wh_inv(s)

    def requires_52_plays(s):
        return plays(s) == 52

    def ensures_hands_empty(s):
        return conj(len(s.hands.north) == 0, len(s.hands.east) == 0, len(s.hands.south) == 0,
                    len(s.hands.west) == 0)


# ---- C05 / C11: single-seat observer -----------------------------------------------------------

@contract('bridge_env.playing_phase.ObservedPlayingPhase.__init__', props=['C05', 'C11'])
class _ob_init:
    at_calls = 'inline'      # the new object aliases the `hand` argument
    params = dict(contract=ContractS, player=Enum(Player), hand=CardSet())
    raises = {Exception: 'iff', AssertionError: 'iff'}

    def requires_valid(contract):
        return valid_contract(contract)

    def raises_Exception(contract):
        return passed_out(contract)

    def raises_AssertionError(contract):
        return (not passed_out(contract)) and contract.declarer is None

    def ensures_opening(self, contract, player, hand):
        d = opt_or(contract.declarer, Player.N)
        return conj(self._hand is hand, self._player is player, self._dummy_hand is None,
                    self.declarer is d, self.leader is G.left(d), self.trick_num == 1,
                    len(self._trick_cards) == 0, len(self.used_cards) == 0)


@contract('bridge_env.playing_phase.ObservedPlayingPhase.set_dummy_hand', props=['C05', 'C11'])
class _:
    params = dict(dummy_hand=CardSet())
    modifies = ['self._dummy_hand']
    check_inv = False
    at_calls = 'inline'      # the stored set aliases the argument (the observer removes from it)
    note = 'the invariant after set_dummy_hand needs the caller to pass dummy\'s remaining cards'

    def ensures_set(self, dummy_hand):
        return self._dummy_hand is dummy_hand


def _ob_checked_hand(s, player):
    """Which known hand (if any) the observer checks for a play by `player`."""
    return ite(player is s._player, 1, ite(player is s.dummy, 2, 0))


@contract('bridge_env.playing_phase.ObservedPlayingPhase.play_card_by_player',
          props=['C05', 'C11'])
class _ob_play:
    params = dict(card=CardS(), player=Enum(Player))
    raises = {ValueError: 'iff', Exception: 'iff'}
    modifies = ['self']
    split = 'card'

    # C05: refused unless it is that seat's turn and (when the hand is known) the card is held
    def raises_ValueError(self, card, player):
        return player is not self.active_player or (
            not card_in(card, self._hand) if player is self._player else (
                player is self.dummy and self._dummy_hand is not None and
                not card_in(card, self._dummy_hand)))

    def raises_Exception(self, card, player):
        return player is self.active_player and player is not self._player and \
            player is self.dummy and self._dummy_hand is None

    def excensures_unchanged(self, old):
        return same(self, old.self)

    def ensures_step(self, card, old):
        return step_ok(self, old.self, card)

    def ensures_card_leaves_the_known_hand(self, card, player, old):
        o = old.self
        own = ite(player is o._player, set_removed(self._hand, o._hand, card),
                  same(self._hand, o._hand))
        if o._dummy_hand is None:
            return conj(own, self._dummy_hand is None, self._player is o._player)
        return self._dummy_hand is not None and conj(own, self._player is o._player, ite(
            conj(player is not o._player, player is o.dummy),
            set_removed(self._dummy_hand, o._dummy_hand, card),
            same(self._dummy_hand, o._dummy_hand)))


@contract('bridge_env.playing_phase.ObservedPlayingPhase.player', props=['C11'])
class _:
    modifies = []
    check_inv = False

    def result(self):
        return self._player


@contract('bridge_env.playing_phase.ObservedPlayingPhase.hand', props=['C11'])
class _:
    modifies = []
    check_inv = False

    def result(self):
        return self._hand


@contract('bridge_env.playing_phase.ObservedPlayingPhase.dummy_hand', props=['C11'])
class _:
    modifies = []
    check_inv = False

    def result(self):
        return self._dummy_hand


# ---- C11(a): the observer and the manager move in lock step ------------------------------------

def public_equal(m, o):
    return conj(same(m.contract, o.contract), m.trump is o.trump, m.declarer is o.declarer,
                m.dummy is o.dummy, m.leader is o.leader, m.active_player is o.active_player,
                m.trick_num == o.trick_num, m._trick_cards == o._trick_cards,
                same(m.playing_history._history, o.playing_history._history),
                m.taken_tricks[NS] == o.taken_tricks[NS], m.taken_tricks[EW] == o.taken_tricks[EW],
                m.used_cards == o.used_cards)


def related(m, o):
    return conj(public_equal(m, o), o._hand == hand_of(m.hands, o._player),
                # (an observer sitting in dummy's seat plays from its own hand; a dummy hand handed
                # to it is never consulted, so nothing is claimed about it)
                True if (o._dummy_hand is None or o._player is m.dummy)
                else o._dummy_hand == hand_of(m.hands, m.dummy))


def observer_of(m, me, known):
    """The state of a single-seat observer at seat `me` that has followed the manager m so far:
    a private copy of the public state, its own remaining cards, and (once disclosed) dummy's."""
    import copy
    pub = copy.deepcopy(m)
    return new_object(ObservedPlayingPhase, dict(
        contract=pub.contract, trump=pub.trump, declarer=pub.declarer, dummy=pub.dummy,
        leader=pub.leader, active_player=pub.active_player, _trick_cards=pub._trick_cards,
        trick_num=pub.trick_num, playing_history=pub.playing_history, used_cards=pub.used_cards,
        taken_tricks=pub.taken_tricks, _player=me, _hand=hand_of(m.hands, me),
        _dummy_hand=hand_of(m.hands, m.dummy) if known else None))


@lemma('C11-observer-follows-manager', props=['C11'])
class _lockstep:
    params = dict(m=PPWHShape, me=OneOf(list(Player)), known=Bool(), card=CardS(),
                  player=Enum(Player))
    note = ('usage precondition: when dummy is on turn and the observer is not dummy, the dummy '
            'hand has been set (the server discloses it after the opening lead)')

    def requires_invariant(m):
        return wh_inv(m)

    def requires_dummy_hand_known_when_dummy_plays(m, me, known, player):
        return implies(conj(player is m.dummy, me is not m.dummy), known)

    # an observer that agrees with the manager does not reject a play the manager accepts, and
    # afterwards the two agree again
    def ensures_lockstep(m, me, known, card, player):
        o = observer_of(m, me, known)
        if not (ob_inv(o) and related(m, o)):
            return False
        try:
            m.play_card_by_player(card, player)
        except Exception:
            return True
        try:
            o.play_card_by_player(card, player)
        except Exception:
            return False
        return related(m, o)

from pyvc.dsl import Bool, Enum, Int, contract, lemma
from pyvc.speclib import implies
import spec.scoring as S


@contract('bridge_env.score.point_difference_to_imps', props=['C16'])
class _imps:
    params = dict(point_difference=Int())
    returns = Int()

    def ensures_official_scale(point_difference, result):
        return result == S.imps(point_difference)

    def ensures_range(result):
        return -24 <= result <= 24


@contract('bridge_env.score.score_to_imp', props=['C16'])
class _score_to_imp:
    params = dict(first_score=Int(), second_score=Int())
    returns = Int()

    def ensures_scale_of_sum(first_score, second_score, result):
        return result == S.imps(first_score + second_score)


@lemma('imps-monotone', props=['C16'])
class _l1:
    params = dict(d=Int(), e=Int())

    def requires_le(d, e):
        return d <= e

    def ensures_monotone(d, e):
        return S.imps(d) <= S.imps(e)


@lemma('imps-odd', props=['C16'])
class _l2:
    params = dict(d=Int())

    def ensures_odd(d):
        return S.imps(-d) == -S.imps(d)


@lemma('imps-ends', props=['C16'])
class _l3:
    params = dict(d=Int())

    def ensures_zero_below_20(d):
        return implies(-20 < d < 20, S.imps(d) == 0)

    def ensures_24_from_4000(d):
        return implies(d >= 4000, S.imps(d) == 24) and implies(d <= -4000, S.imps(d) == -24)

    def ensures_bounds(d):
        return -24 <= S.imps(d) <= 24


# ---- C07 ---------------------------------------------------------------------------------------
from bridge_env import Bid, Contract, Player, Suit, Vul
from pyvc.dsl import Obj, Opt
import spec.table as G

KIND = {Suit.C: 0, Suit.D: 0, Suit.H: 1, Suit.S: 1, Suit.NT: 2}

ContractS = Obj(Contract, dict(final_bid=Opt(Enum(Bid)), x=Bool(), xx=Bool(), vul=Enum(Vul),
                               declarer=Opt(Enum(Player))), frozen=True)


def valid_contract(c):
    return c.final_bid is not Bid.X and c.final_bid is not Bid.XX


def passed_out(c):
    return c.final_bid is None or c.final_bid is Bid.Pass


@contract('bridge_env.score.calc_bid_score', props=['C07'])
class _cbs:
    params = dict(bid=Enum(Bid), x=Bool(), xx=Bool(), vul=Bool(), taken_trick_num=Int(0, 13))
    returns = Int()
    raises = {ValueError: 'iff'}

    def raises_ValueError(bid):
        return not G.is_bid(bid)

    def ensures_duplicate_score(bid, x, xx, vul, taken_trick_num, result):
        return result == S.dup_score(G.level(bid), KIND[G.denom(bid)], S.status(x, xx), vul,
                                     taken_trick_num)


@contract('bridge_env.score.calc_score', props=['C07', 'C08'])
class _cs:
    params = dict(contract=ContractS, taken_tricks=Int(0, 13))
    returns = Int()
    raises = {ValueError: 'iff'}

    def requires_valid(contract):
        return valid_contract(contract)

    def raises_ValueError(contract):
        return (not passed_out(contract)) and contract.declarer is None and \
            (contract.vul is Vul.NS or contract.vul is Vul.EW)

    def ensures_passed_out_zero(contract, result):
        return implies(passed_out(contract), result == 0)

    def ensures_declarer_side_score(contract, taken_tricks, result):
        return True if (passed_out(contract) or contract.declarer is None) else \
            result == S.dup_score(G.level(contract.final_bid), KIND[G.denom(contract.final_bid)],
                                  S.status(contract.x, contract.xx),
                                  G.side_vulnerable(G.side(contract.declarer), contract.vul),
                                  taken_tricks)

    def ensures_no_declarer_needed_when_all_or_none(contract, taken_tricks, result):
        return True if (passed_out(contract) or contract.declarer is not None) else \
            result == S.dup_score(G.level(contract.final_bid), KIND[G.denom(contract.final_bid)],
                                  S.status(contract.x, contract.xx), contract.vul is Vul.BOTH,
                                  taken_tricks)

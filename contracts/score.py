from pyvc.dsl import Bool, Enum, Int, contract, lemma
from pyvc.speclib import implies
import spec.scoring as S


@contract('bridge_env.score.point_difference_to_imps', props=['C16'])
class _imps:
    params = dict(point_difference=Int())
    returns = Int()

    def ensures_official_scale(point_difference, result):
        return result == S.imps(point_difference)

    def ensures_range(result):
        return -24 <= result <= 24


@contract('bridge_env.score.score_to_imp', props=['C16'])
class _score_to_imp:
    params = dict(first_score=Int(), second_score=Int())
    returns = Int()

    def ensures_scale_of_sum(first_score, second_score, result):
        return result == S.imps(first_score + second_score)


@lemma('imps-monotone', props=['C16'])
class _l1:
    params = dict(d=Int(), e=Int())

    def requires_le(d, e):
        return d <= e

    def ensures_monotone(d, e):
        return S.imps(d) <= S.imps(e)


@lemma('imps-odd', props=['C16'])
class _l2:
    params = dict(d=Int())

    def ensures_odd(d):
        return S.imps(-d) == -S.imps(d)


@lemma('imps-ends', props=['C16'])
class _l3:
    params = dict(d=Int())

    def ensures_zero_below_20(d):
        return implies(-20 < d < 20, S.imps(d) == 0)

    def ensures_24_from_4000(d):
        return implies(d >= 4000, S.imps(d) == 24) and implies(d <= -4000, S.imps(d) == -24)

    def ensures_bounds(d):
        return -24 <= S.imps(d) <= 24

"""C08, C10 (main-thread layer), C13: the table manager's main thread -- Server.deal,
bidding_phase, playing_phase and run -- as sequential code over assumed FIFO channels.

Cross-thread inputs are only the results of Queue.get() (arbitrary texts); cross-thread outputs are
the items put on the per-seat queues.  Loop bodies are proved against per-iteration postconditions
(`body_ensures`): which queue was read, what was relayed to whom, what was written to the log.
"""
from bridge_env import (Bid, BiddingPhase, BiddingPhaseState, Card, Contract, Hands, Pair, Player,
                        Suit, Vul)
from bridge_env.data_handler.abstract_classes import BoardSetting
from bridge_env.data_handler.json_handler.writer import JsonLogWriter
from bridge_env.data_handler.pbn_handler.writer import Scoring
from bridge_env.network_bridge.server import PlayerThread, Server
from bridge_env.playing_phase import PlayingPhaseWithHands
from pyvc.dsl import (Bool, Card as CardS, CardSet, Const, Dict, Enum, EnumElem, Ext, Int, Obj,
                      OneOf, Opt, Ref, Seq, Text, TraceList, TraceReset, Tuple, contract, klass,
                      lemma, transparent, LoopContract)
from pyvc.speclib import (local_assigned, call_arg, call_result, calls_since, conj, disj, forall, iff, implies, ite, json_text, opt_or, same,
                          sets_disjoint)
import spec.jsonlog as J
import spec.protocol as PR
import spec.scoring as SC
import spec.table as G
from contracts.bidding import BPShape, inv as bp_inv, over as bp_over, lb as bp_lb, hist as bp_hist
from contracts.json_io import DdaShape, FileShape, out as wout
from contracts.playing import (HandsShape, PHShape, PPWHShape, hand_of, wh_inv)
from contracts.score import ContractS, KIND, passed_out, valid_contract

M = Server.Message
N, E, S, W = Player.N, Player.E, Player.S, Player.W
NS, EW = Pair.NS, Pair.EW

QueueShape = Ext('queue', dict(out=TraceList(), gets=TraceList(), interruptible=Const(True)))
QueueReset = Ext('queue', dict(out=TraceReset(), gets=TraceReset()))
EventShape = Ext('event', {})
BoardSettingShape = Obj(BoardSetting, dict(hands=HandsShape, dealer=Enum(Player), vul=Enum(Vul),
                                           board_id=Text(), dda=Opt(DdaShape)), frozen=True)
BoardListShape = Ext('boardlist', dict(n=Int(0), reads=TraceList(),
                                       item_shape=Const(BoardSettingShape)))
ServerShape = Obj(Server, dict(
    ip_address=Const('localhost'), port=Const(2000), board_settings=Opt(BoardListShape),
    output_file_path=Const('out.json'),
    sent_message_queues=Dict({p: QueueShape for p in Player}),
    received_message_queues=Dict({p: QueueShape for p in Player}),
    players_event=Dict({p: EventShape for p in Player}),
    _socket=Ext('ssocket', {})))
QUEUES_RESET = {'self.sent_message_queues': Dict({p: QueueReset for p in Player}),
                'self.received_message_queues': Dict({p: QueueReset for p in Player})}

P = ['C08', 'C10', 'C13']       # (Server.run also carries the accept-loop clause of C20)


@klass('bridge_env.network_bridge.server.Server', props=P)
class _S:
    shape = ServerShape


def sent(s, p):
    """What the main thread has put on seat p's queue (since the enclosing havoc point)."""
    return s.sent_message_queues[p].out


def got(s, p):
    """The messages the main thread has taken from seat p's queue."""
    return s.received_message_queues[p].gets


transparent('bridge_env.network_bridge.server.Server._sync_event', props=P)


# ---- deal ----------------------------------------------------------------------------------------

@contract('bridge_env.network_bridge.server.Server.deal', props=P)
class _deal:
    params = dict(board_number=Int(1), dealer=Enum(Player), vul=Enum(Vul), cards=HandsShape,
                  event_sync=EventShape)
    modifies = ['self.sent_message_queues']

    # C10: every seat is sent the configured board number, dealer and vulnerability, then its own
    # thirteen cards -- and nobody else's
    def ensures_header_then_own_hand_only(self, board_number, dealer, vul, cards, old):
        return forall(Player, lambda p: sent(self, p) == sent(old.self, p) + [
            PR.enc_header(board_number, dealer, vul),
            PR.enc_cards_message(G.FORMAL[p], hand_of(cards, p))])


# ---- auction -------------------------------------------------------------------------------------

def _bid_inv(self, dealer, vul, bidding_env):
    return conj(bp_inv(bidding_env), bidding_env._BiddingPhase__dealer is dealer,
                bidding_env._BiddingPhase__vul is vul)


def _bid_reads_the_seat_on_turn(self, iter, bid_message):
    """C08: exactly one message is taken, from the queue of the seat whose turn it is."""
    a = opt_or(iter.bidding_env._BiddingPhase__active_player, N)
    return forall(Player, lambda p: len(got(self, p)) == (1 if p is a else 0))


def _bid_is_applied(self, iter, bidding_env, bid):
    """C08: the call parsed from that message is what the auction records."""
    from pyvc.speclib import seq_appended
    return seq_appended(bp_hist(bidding_env), bp_hist(iter.bidding_env), bid)


def _bid_relay(self, iter, bid_message):
    """C10: the seat on turn is announced to all four; the call is relayed exactly once to each
    seat other than the one that made it."""
    a = opt_or(iter.bidding_env._BiddingPhase__active_player, N)
    return forall(Player, lambda p: sent(self, p) == (
        [G.FORMAL[a]] if p is a else [G.FORMAL[a], bid_message]))


@contract('bridge_env.network_bridge.server.Server.bidding_phase', props=P)
class _bidding_phase:
    params = dict(dealer=Enum(Player), vul=Enum(Vul))
    returns = Tuple(ContractS, Seq(EnumElem(Bid)))
    raises = {BaseException: 'onlyif'}
    exc_havoc = True
    modifies = ['self.sent_message_queues', 'self.received_message_queues']
    loops = {0: LoopContract(invariant=_bid_inv, havoc_heap=dict(bidding_env=BPShape, **QUEUES_RESET),
                             body_ensures=dict(reads_the_seat_on_turn=_bid_reads_the_seat_on_turn,
                                               call_is_applied=_bid_is_applied,
                                               relay=_bid_relay))}
    note = ('may raise: illegal call (Exception), unparseable message, operator interrupt while '
            'waiting for a seat (KeyboardInterrupt)')

    # C03/C08: the contract of exactly the recorded calls, with the board's vulnerability
    def ensures_contract_of_the_recorded_auction(vul, result, frame):
        env = frame.bidding_env
        c = result[0]
        return conj(bp_over(env), same(result[1], bp_hist(env)), valid_contract(c), c.vul is vul,
                    iff(passed_out(c), bp_lb(env) is None),
                    iff(passed_out(c), c.declarer is None),
                    implies(not passed_out(c), c.final_bid is bp_lb(env)))

    # (what a caller may rely on without seeing the auction object)
    def ensures_a_finished_contract_with_the_board_vulnerability(vul, result):
        c = result[0]
        return conj(valid_contract(c), c.vul is vul, iff(passed_out(c), c.declarer is None))

    def ensures_end_of_auction_announced(self, result):
        return forall(Player, lambda p: sent(self, p) == [
            M.NULL, M.PASSED_OUT if passed_out(result[0]) else M.NULL])


# ---- play ----------------------------------------------------------------------------------------

def _play_outer_inv(self, contract, cards, playing_env, idx):
    return conj(wh_inv(playing_env), playing_env.hands is cards, playing_env.trick_num == idx + 1,
                len(playing_env._trick_cards) == 0, same(playing_env.contract, contract))


def _play_inner_inv(self, contract, cards, playing_env, trick_num, idx):
    return conj(wh_inv(playing_env), playing_env.hands is cards,
                same(playing_env.contract, contract), 1 <= trick_num, trick_num <= 13,
                ite(idx < 4,
                    conj(playing_env.trick_num == trick_num, len(playing_env._trick_cards) == idx),
                    conj(playing_env.trick_num == trick_num + 1,
                         len(playing_env._trick_cards) == 0)))


def _sender(env):
    """The connection a card comes from: declarer plays dummy's cards."""
    return ite(env.active_player is env.dummy, env.declarer, env.active_player)


def _card_read_from_the_right_connection(self, iter):
    src = _sender(iter.playing_env)
    return forall(Player, lambda p: len(got(self, p)) == (1 if p is src else 0))


def _card_relay_and_dummy_disclosure(self, iter, trick_num, i, message, cards):
    """C10: the card is relayed once to every seat except the connection that sent it; dummy's
    hand goes to the three other seats right after the opening lead (first card of trick 1),
    behind that card's relay and before anything else."""
    src = _sender(iter.playing_env)
    dummy = iter.playing_env.dummy
    opening = conj(trick_num == 1, i == 0)
    dmsg = PR.enc_cards_message('Dummy', cards[dummy])
    return forall(Player, lambda p: sent(self, p) == (
        ([] if p is src else [message]) + ([dmsg] if (opening and p is not dummy) else [])))


def _card_is_played_by_the_seat_on_turn(self, iter, playing_env, card):
    from contracts.playing import step_ok
    return step_ok(playing_env, iter.playing_env, card)


@contract('bridge_env.network_bridge.server.Server.playing_phase', props=P)
class _playing_phase:
    params = dict(contract=ContractS, cards=HandsShape)
    returns = Tuple(PHShape, Int(0))
    raises = {BaseException: 'onlyif'}
    exc_havoc = True
    modifies = ['self.sent_message_queues', 'self.received_message_queues', 'cards']
    loops = {
        1: LoopContract(invariant=_play_outer_inv,
                        havoc_heap=dict(playing_env=PPWHShape, **QUEUES_RESET)),
        3: LoopContract(invariant=_play_inner_inv,
                        havoc_heap=dict(playing_env=PPWHShape, **QUEUES_RESET),
                        body_ensures=dict(
                            read_from_the_right_connection=_card_read_from_the_right_connection,
                            relay_and_dummy_disclosure=_card_relay_and_dummy_disclosure,
                            played_by_the_seat_on_turn=_card_is_played_by_the_seat_on_turn)),
    }
    note = 'may raise: unparseable card, card not held / out of turn (ValueError), operator interrupt'

    def requires_a_real_contract_and_a_proper_deal(contract, cards):
        return conj(valid_contract(contract), not passed_out(contract), contract.declarer is not None,
                    sets_disjoint(cards.north, cards.east, cards.south, cards.west))

    # C08: the recorded tricks of this play and the tricks won by declarer's side
    def ensures_history_and_declarer_side_tricks(contract, result, frame):
        env = frame.playing_env
        return conj(result[0] is env.playing_history, env.trick_num == 14,
                    result[1] == env.taken_tricks[G.side(opt_or(contract.declarer, N))],
                    same(env.contract, contract))


# ---- the session ---------------------------------------------------------------------------------

from contracts.json_io import _writer_shape
from contracts.protocol import NAME_EXCL
from pyvc.dsl import EmptyList

transparent('bridge_env.network_bridge.server.PlayerThread.__init__',
            'bridge_env.network_bridge.socket_interface.MessageInterface.__init__', props=P + ['C20'])


def _proper_board(b):
    h = b.hands
    return sets_disjoint(h.north, h.east, h.south, h.west)


RunBoardList = Ext('boardlist', dict(n=Int(0), reads=TraceList(), item_shape=Const(BoardSettingShape),
                                     item_pred=Const(_proper_board), last_orig=Const(None)))
RunServerShape = Obj(Server, dict(ServerShape.fields, board_settings=Opt(RunBoardList)))
WriterLoopShape = Obj(JsonLogWriter, dict(_writer=Ext('file', dict(out=TraceReset())), _open=Bool(),
                                          _first_line=Bool()))
TeamNames = Dict({p: Opt(Text(excl=NAME_EXCL)) for p in Player})


def _accept_inv():
    return True


def _one_admission_at_a_time(team_names, event_thread, event_sync, thread, connection):
    """C20: each accepted connection gets its own seat thread working on the SHARED seat table and
    barrier; the main thread then waits for that thread's verdict before it accepts the next
    connection, and re-arms the verdict flag -- so at most one admission decides at any time."""
    return conj(thread.connection_socket is connection,
                thread.team_names is team_names, thread.event_thread is event_thread,
                thread.event_sync is event_sync, thread.ghost_started,
                event_thread.ops == ['wait', 'clear'])


def _boards_inv(self, game_log_writer, fw, idx, ns_team_name, ew_team_name, max_board_num):
    # idx boards are done; the loop is left by `break` in the pass for the last board, so the
    # range is never exhausted unless there is no board at all
    return conj(game_log_writer._open, iff(game_log_writer._first_line, idx == 0),
                game_log_writer._writer is fw, ns_team_name is not None, ew_team_name is not None,
                max_board_num == (101 if self.board_settings is None else self.board_settings.n + 1),
                disj(idx < max_board_num - 1, max_board_num == 1))


def expected_scores(contract, taken):
    """C08: the score of the contract by the rules, to declarer's side; its negative to the other;
    zero to both on a passed-out board."""
    if passed_out(contract):
        return {NS: 0, EW: 0}
    side = G.side(opt_or(contract.declarer, N))
    s = SC.dup_score(G.level(contract.final_bid), KIND[G.denom(contract.final_bid)],
                     SC.status(contract.x, contract.xx), G.side_vulnerable(side, contract.vul), taken)
    return {NS: ite(side is NS, s, -s), EW: ite(side is EW, s, -s)}


def _board_record(self, iter, game_log_writer, board_number, board_id, dealer, vul, dda, cards,
                  contract, bid_history, play_history, taken_trick_num, ns_team_name, ew_team_name):
    """C08: exactly one record is written for the board, with the configured id / dealer /
    vulnerability / ORIGINAL deal, the auction and play as recorded, and the score by the rules."""
    tricks = None if play_history is None else play_history._history
    configured = self.board_settings is not None
    deal0 = self.board_settings.last_orig.hands if configured else cards
    rec = J.log_record(board_id, ew_team_name, ns_team_name, ew_team_name, ns_team_name, dealer,
                       deal0, Scoring.IMP, bid_history, contract, tricks, taken_trick_num,
                       expected_scores(contract, opt_or(taken_trick_num, 0)), dda)
    first = iter.game_log_writer._first_line
    return conj(wout(game_log_writer) == ([json_text(rec)] if first else [J.SEPARATOR, json_text(rec)]),
                contract.vul is vul,
                iff(passed_out(contract), play_history is None),
                iff(passed_out(contract), taken_trick_num is None))


def _board_is_the_configured_one(self, board_number, board_id, dealer, vul, dda):
    """C08: board k of the session is the k-th configured board."""
    if self.board_settings is None:
        return True
    b = self.board_settings.last_orig
    return conj(self.board_settings.reads == [board_number - 1], board_id == b.board_id,
                dealer is b.dealer, vul is b.vul, same(dda, b.dda))


def _phases_get_the_board(iter, board_number, dealer, vul, cards, contract, bid_history):
    """C08/C10: what is dealt, auctioned and played in pass k IS board k: the deal goes out under
    the board's number, dealer and vulnerability with the board's cards; the auction runs with
    that dealer and vulnerability and its contract and calls are the ones recorded; the play --
    entered exactly when the board is not passed out -- is of that contract with a copy of those
    cards."""
    played = calls_since(iter, Server.playing_phase)
    auction = call_result(iter, Server.bidding_phase, 0) if \
        calls_since(iter, Server.bidding_phase) == 1 else None
    return conj(
        calls_since(iter, Server.deal) == 1,
        call_arg(iter, Server.deal, 0, 'board_number') == board_number,
        call_arg(iter, Server.deal, 0, 'dealer') is dealer,
        call_arg(iter, Server.deal, 0, 'vul') is vul,
        same(call_arg(iter, Server.deal, 0, 'cards'), cards),
        auction is not None,
        call_arg(iter, Server.bidding_phase, 0, 'dealer') is dealer,
        call_arg(iter, Server.bidding_phase, 0, 'vul') is vul,
        same(auction[0], contract), same(auction[1], bid_history),
        played == (0 if passed_out(contract) else 1),
        played == 0 or conj(same(call_arg(iter, Server.playing_phase, 0, 'contract'), contract),
                            same(call_arg(iter, Server.playing_phase, 0, 'cards'), cards)))


def _log_complete(w):
    o = wout(w)
    return (not w._open) and len(o) >= 1 and (o[-1] == J.FOOTER or o[-1] == J.FOOTER_EMPTY)


@contract('bridge_env.network_bridge.server.Server.run', props=P + ['C20'])
class _run:
    params = dict(self=RunServerShape)
    # AssertionError (declared exactly: an assertion failure is never covered by a base class):
    # the assertions after the admission loop restate what the seat threads guarantee (partners
    # share a name, both sides are named) -- in this sequential model what other threads wrote to
    # the shared seat table is arbitrary, so they can fail here; they are then an abort like any
    # other (C13 clause below applies)
    raises = {BaseException: 'onlyif', AssertionError: 'onlyif'}
    exc_havoc = True
    modifies = ['self']
    loops = {
        0: LoopContract(invariant=_accept_inv,
                        havoc_heap=dict(team_names=TeamNames, threads=TraceReset(),
                                        event_thread=Ext('event', dict(ops=TraceReset()))),
                        body_ensures=dict(one_admission_at_a_time=_one_admission_at_a_time)),
        1: LoopContract(invariant=_boards_inv,
                        havoc=dict(play_history=Opt(PHShape), taken_trick_num=Opt(Int(0)),
                                   score=Int()),
                        havoc_heap=dict(game_log_writer=WriterLoopShape, **QUEUES_RESET),
                        body_ensures=dict(phases_get_the_board=_phases_get_the_board,
                                          record_of_the_board=_board_record,
                                          configured_board_in_order=_board_is_the_configured_one)),
    }
    native_replay = {'Server.run/excpost/aborted_session_leaves_a_closed_log':
                     lambda: __import__('contracts.server_replay', fromlist=['x']).aborted_session_check()}
    note = ('the accept loop is abstracted by the invariant True (admission is C20); `threads` is '
            'reset to [] by the loop rule (join() is progress only)')

    # normal end: the log is closed and complete
    def ensures_log_closed(frame):
        return _log_complete(frame.game_log_writer)

    # C08: a session that ends normally has gone through ALL configured boards: the board loop is
    # left in the pass for the last configured board (each pass handles board k and writes its
    # record: the per-iteration postconditions), never earlier
    def ensures_every_configured_board_played(self, frame):
        if self.board_settings is None:
            return frame.max_board_num == 101
        n = self.board_settings.n
        return conj(frame.max_board_num == n + 1,
                    n == 0 or (local_assigned(frame, 'board_number') and frame.board_number == n))

    # C13: whatever makes the session stop -- illegal or malformed call or play, a card not held,
    # an operator interrupt -- once the log has been opened it is closed again: the closing
    # brackets are the last thing written, after whole records only
    def excensures_aborted_session_leaves_a_closed_log(frame):
        return True if not hasattr(frame, 'game_log_writer') else _log_complete(frame.game_log_writer)


# ---- scenario: alerted calls through the table manager (C19) -------------------------------------

from pyvc import strings as _XS
import z3 as _z3

SCENARIO_CALLS = (Bid.Pass, Bid.NT7)


def _alerted_call_script(seat):
    """Queue.get() for seat `seat`: one of its call messages in ANY letter case, followed by blanks,
    'Alert.' in any letter case and optional blanks (what a foreign client may send)."""
    def script(it, q):
        ctx = it.ctx
        k = ctx.fresh_int('scenario_call')
        ctx.assume_type(_z3.And(k >= 0, k < len(SCENARIO_CALLS)))
        call = SCENARIO_CALLS[ctx.decide_among(k, list(range(len(SCENARIO_CALLS))))]
        plain = _XS.case_variants(ctx, PR.enc_call(seat, call))
        ws1 = _XS.Atom(ctx.fresh_name('ws1'), only=' \t', minlen=1)
        ctx.assume_type(_z3.Length(ws1.t) >= 1)
        ws2 = _XS.Atom(ctx.fresh_name('ws2'), only=' \t')
        msg = _XS.str_concat(_XS.str_concat(_XS.str_concat(plain, _XS.XStr([(True, ws1)])),
                                            _XS.case_variants(ctx, 'Alert.', 'al')),
                             _XS.XStr([(True, ws2)]))
        q.fields['ghost_call'] = call
        q.fields['ghost_plain'] = plain
        return msg
    return script


def _scripted_queue(seat):
    return Ext('queue', dict(out=TraceList(), gets=TraceList(), interruptible=Const(False),
                             script=Const(_alerted_call_script(seat)), ghost_call=Const(None),
                             ghost_plain=Const(None)))


AlertScenarioServer = Obj(Server, dict(
    ServerShape.fields, received_message_queues=Dict({p: _scripted_queue(p) for p in Player})))


def _alerted_call_is_understood(self, iter, bid, bid_message):
    """C19 through the table manager: an alerted call in any letter case is understood as the call
    (legal or not), and what is relayed is the call message without the alert suffix."""
    a = opt_or(iter.bidding_env._BiddingPhase__active_player, N)
    q = self.received_message_queues[a]
    return conj(bid is q.ghost_call, bid_message == q.ghost_plain)


from pyvc.dsl import REGISTRY as _REG2
_REG2.fns['bridge_env.network_bridge.server.Server.bidding_phase'].props.append('C19')
def _alerted_call_never_rejected_as_unparseable(frame):
    """... in particular the session is not abandoned because the alerted call was not understood
    (it may still be abandoned because the call is illegal in the position)."""
    from pyvc.speclib import local_assigned
    return local_assigned(frame, 'bidding_phase_state')


_REG2.fns['bridge_env.network_bridge.server.Server.bidding_phase'].variants = {
    'alerted-calls': dict(
        # C19: the alerted call is understood; C10: what the other seats are told is the call and
        # nothing else (the alert marker of a foreign client is not passed on)
        props=['C19', 'C10'],
        exc_ensures=[('alerted_call_never_rejected_as_unparseable',
                      _alerted_call_never_rejected_as_unparseable)],
        params=dict(self=AlertScenarioServer),
        loops={0: LoopContract(invariant=_bid_inv,
                               havoc_heap=dict(bidding_env=BPShape,
                                               **{'self.sent_message_queues':
                                                  Dict({p: QueueReset for p in Player})}),
                               body_ensures=dict(alerted_call_is_understood=_alerted_call_is_understood))})}

"""C11 (b): the bundled network client mirrors the auction locally.

`Client.bidding_phase` keeps a BiddingPhase of its own so that it knows whose turn it is.  What is
proved: the replica is created with the dealer and vulnerability of the board header (parse_board:
C19), every iteration applies exactly one call to it -- the client's own choice, which it also
sends as the canonical call message, or the call parsed from the one message it receives, parsed
with the name of the seat whose turn it is -- the own choice of the bundled policy is never
rejected, and the returned contract is the replica's.  Since BiddingPhase.take_bid is a function of
(state, call) (C01-C03), a replica fed the calls of the table manager's auction holds the same
contract, declarer, turn and history: that composition over the network is the assumed channel
contract (messages arrive as sent, in order: C19 framing).
"""
from bridge_env import Bid, BiddingPhase, BiddingPhaseState, Pair, Player, Vul
from bridge_env.network_bridge.bidding_system import AlwaysPass, WeakBid
from bridge_env.network_bridge.client import Client
from bridge_env.network_bridge.playing_system import RandomPlay
from bridge_env.network_bridge.socket_interface import MessageInterface
from pyvc.dsl import (Alias, IntElem, Seq, TraceList, Bool, CardSet, Const, Dict, Enum, Ext, Int, Obj, OneOf, Opt, Text, TraceReset,
                      Tuple, contract, klass, transparent, LoopContract)
from pyvc.speclib import (abstract_result, conj, disj, iff, implies, ite, opt_or, same, seq_appended,
                          sock_pos, sock_sent, vec_get)
import spec.auction as A
import spec.protocol as PR
import spec.table as G
from contracts.bidding import BPShape, hist as bp_hist, inv as bp_inv, is_legal_now, lb as bp_lb, \
    over as bp_over
from contracts.framing import SocketShape
from contracts.score import ContractS, passed_out, valid_contract

P = ['C11']
N = Player.N

def _client_shape(connected):
    """The client talks through the very socket that SocketInterface.__enter__ created and
    connect_socket() connects (`_socket` and `connection_socket` are one object: established by
    Client.__enter__, contracts/plumbing.py).  `connected` / `closed` are the ghost life cycle of
    that socket: sending or receiving before connect(), or after close(), raises OSError."""
    sock = Ext('socket', dict(data=Seq(IntElem()), pos=Int(0), sent=TraceList(),
                              closed=Const(False),
                              connected=Const(True) if connected else Bool()))
    return Obj(Client, dict(
        ip_address=Const('localhost'), port=Const(2000), player=Enum(Player), team_name=Text(),
        bidding_system=Obj(WeakBid, {}), playing_system=Obj(RandomPlay, {}),
        opponent_team_name=Opt(Text()), connection_socket=sock, _socket=Alias('connection_socket'),
        board_num=Int(0), dealer=Enum(Player), vul=Enum(Vul), hand_set=CardSet(),
        hand_binary=Tuple(*[Int(0, 1) for _ in range(52)])))


ClientShape = _client_shape(True)           # every phase after the admission handshake
FreshClientShape = _client_shape(False)     # as left by __enter__: not yet connected


def client_inv(s):
    from pyvc.speclib import seq_len, sock_data
    c = s.connection_socket
    return conj(0 <= sock_pos(c), sock_pos(c) <= seq_len(sock_data(c)))


@klass('bridge_env.network_bridge.client.Client', props=P)
class _C:
    shape = ClientShape
    inv = client_inv


def sent(s):
    return sock_sent(s.connection_socket)


def line(t):
    return t + '\r\n'


@contract('bridge_env.network_bridge.bidding_system.WeakBid.bid', props=P)
class _weak_bid:
    params = dict(self=Obj(WeakBid, {}), hand=Tuple(*[Int(0, 1) for _ in range(52)]),
                  bidding_phase=BPShape)
    returns = Enum(Bid)
    modifies = []

    def requires_auction_in_progress(bidding_phase):
        return conj(bp_inv(bidding_phase), not bp_over(bidding_phase))

    # the bundled policy only ever makes a legal call: 1C when 1C is available, else pass
    def ensures_a_legal_call(bidding_phase, result):
        return conj(disj(result is Bid.C1, result is Bid.Pass), is_legal_now(bidding_phase, result))


def _cb_inv(self, env):
    return conj(client_inv(self), bp_inv(env), env._BiddingPhase__dealer is self.dealer,
                env._BiddingPhase__vul is self.vul)


def _cb_step(self, iter, env, bid, message):
    """One call per iteration is applied to the replica: the client's own choice, announced with
    the canonical call message, or the call of the single message received, parsed with the name
    of the seat whose turn it is."""
    a = opt_or(iter.env._BiddingPhase__active_player, N)
    mine = a is self.player
    me = G.FORMAL[self.player]
    received = sock_pos(self.connection_socket) != sock_pos(iter.self.connection_socket)
    return conj(
        seq_appended(bp_hist(env), bp_hist(iter.env), bid),
        implies(mine, conj(sent(self) == [line(PR.enc_call(self.player, bid))], not received)),
        implies(not mine, sent(self) == [line(me + ' ready for ' + G.FORMAL[a] + "'s bid")]),
        # ... understood as a call of the seat on turn (not, say, of the client's own seat)
        mine or (message is not None and
                 bid is abstract_result(MessageInterface.parse_bid, message, G.FORMAL[a])))


@contract('bridge_env.network_bridge.client.Client.bidding_phase', props=P)
class _client_bidding:
    returns = ContractS
    raises = {Exception: 'onlyif'}
    exc_havoc = True
    modifies = ['self.connection_socket']
    loops = {0: LoopContract(invariant=_cb_inv,
                             havoc_heap={'env': BPShape,
                                         'self.connection_socket': Ext('socket', dict(
                                             pos=Int(0), sent=TraceReset()))},
                             body_ensures=dict(one_call_per_turn=_cb_step))}
    note = ('raises only when a received message is unparseable, the connection is closed, or the '
            'received call is illegal in the replica (impossible when the stream is the table '
            'manager\'s relay of a legal auction, which is the assumed channel contract)')

    # the contract returned is the replica's: the last bid of the recorded calls with the header's
    # vulnerability (C03), none of it invented by the client
    def ensures_contract_of_the_replica(self, result, frame):
        env = frame.env
        return conj(bp_over(env), valid_contract(result), result.vul is self.vul,
                    iff(passed_out(result), bp_lb(env) is None),
                    implies(not passed_out(result), result.final_bid is bp_lb(env)))

    # (what a caller may rely on)
    def ensures_a_contract_of_this_board(self, result):
        return conj(valid_contract(result), result.vul is self.vul,
                    implies(not passed_out(result), result.declarer is not None))

    # the client's own call is never rejected by its replica (the only local Exception('') that can
    # fire is for a received call)
    def excensures_own_call_never_rejected(self, frame):
        from pyvc.speclib import local_assigned
        return True if not local_assigned(frame, 'env') else disj(
            not local_assigned(frame, 'bidding_phase_state'),
            frame.env._BiddingPhase__active_player is not self.player)


# ---- the play mirror -----------------------------------------------------------------------------

from bridge_env.playing_phase import ObservedPlayingPhase
from pyvc.dsl import Card as CardS
from pyvc.speclib import card_in, forall
from contracts.playing import OPPShape, ob_inv, step_ok

# the bundled playing policy (C06): RandomPlay.play returns a playable card of the given hand


def _cp_outer_inv(self, contract, declarer, dummy, env):
    return conj(client_inv(self), ob_inv(env), same(env.contract, contract),
                env._player is self.player, env._hand is self.hand_set,
                declarer is env.declarer, dummy is env.dummy)


def _cp_inner_inv(self, contract, declarer, dummy, env, idx):
    return conj(client_inv(self), ob_inv(env), same(env.contract, contract),
                env._player is self.player, env._hand is self.hand_set,
                declarer is env.declarer, dummy is env.dummy)


def _cp_card_step(self, iter, env, card, dummy, declarer, hand_open):
    """C11: every iteration applies exactly one play to the replica, by the seat whose turn it is:
    the client's own card (also sent as '<me> plays <card>'), dummy's card when the client is
    declarer (sent as '<dummy> plays <card>'), or the card parsed from the one message received,
    parsed as a play of the seat on turn."""
    a = iter.env.active_player
    me = self.player
    i_play = conj(a is me, me is not dummy)
    i_play_dummy = conj(a is dummy, me is declarer)
    asks_dummy = conj(a is dummy, not iter.hand_open, me is not dummy)
    n_sent = len(sent(self))
    ready_for_card = line(G.FORMAL[me] + ' ready for ' + ('dummy' if a is dummy else G.FORMAL[a]) +
                          "'s card to trick " + str(iter.env.trick_num))
    return conj(step_ok(env, iter.env, card),
                # dummy's hand is asked for exactly once, by the three other seats, when dummy
                # first comes on turn; otherwise one message per iteration
                n_sent == (2 if asks_dummy else 1),
                implies(asks_dummy, sent(self)[0] == line(G.FORMAL[me] + ' ready for dummy')),
                implies(not i_play and not i_play_dummy, sent(self)[-1] == ready_for_card),
                implies(i_play, sent(self)[-1] == line(G.FORMAL[me] + ' plays ' +
                                                       G.RANK_TEXT[card.rank] + PR.SUIT_LETTER[card.suit])),
                implies(i_play_dummy, sent(self)[-1] == line(G.FORMAL[dummy] + ' plays ' +
                                                             G.RANK_TEXT[card.rank] +
                                                             PR.SUIT_LETTER[card.suit])))


def _four_cards(_):
    return _ == 3


@contract('bridge_env.network_bridge.client.Client.playing_phase', props=P)
class _client_playing:
    params = dict(contract=ContractS)
    raises = {Exception: 'onlyif', AssertionError: 'onlyif', ValueError: 'onlyif'}
    exc_havoc = True
    modifies = ['self.connection_socket', 'self.hand_set']
    loops = {0: LoopContract(invariant=_cp_outer_inv,
                             havoc=dict(hand_open=Bool()),
                             havoc_heap={'env': OPPShape, 'self.hand_set': CardSet(),
                                         'self.connection_socket': Ext('socket', dict(
                                             pos=Int(0), sent=TraceReset()))},
                             body_ensures=dict(four_cards_per_trick=_four_cards)),
             1: LoopContract(invariant=_cp_inner_inv,
                             havoc=dict(hand_open=Bool()),
                             havoc_heap={'env': OPPShape, 'self.hand_set': CardSet(),
                                         'self.connection_socket': Ext('socket', dict(
                                             pos=Int(0), sent=TraceReset()))},
                             body_ensures=dict(one_play_per_turn=_cp_card_step))}
    note = ('the replica is an ObservedPlayingPhase at the client\'s seat fed every public play; that '
            'it then agrees with the manager is the in-process lemma C11-observer-follows-manager')

    def requires_a_real_contract(self, contract):
        return conj(valid_contract(contract), not passed_out(contract), contract.declarer is not None)


# ---- the rest of the client's session: handshake, deal, board loop -------------------------------

from pyvc.dsl import DecodedStr
from pyvc.speclib import call_arg, call_result, calls_since
from pyvc.dsl import transparent as _transparent

_transparent('bridge_env.network_bridge.socket_interface.SocketInterface.connect_socket', props=P + ['C20'])

RECV = MessageInterface.receive_message


@contract('bridge_env.network_bridge.client.Client._deal', props=P)
class _client_deal:
    raises = {Exception: 'onlyif'}
    exc_havoc = True
    modifies = ['self.connection_socket', 'self.board_num', 'self.dealer', 'self.vul',
                'self.hand_set', 'self.hand_binary']
    note = ('raises only when a received message is unparseable or the connection is closed')

    # C11: the replica's board is the one announced: the header is the first message received after
    # "ready for deal", the hand is what the second message (asked for with "ready for cards")
    # says about the client's OWN seat, and both are stored unchanged
    def ensures_board_and_hand_as_announced(self, old, frame):
        me = G.FORMAL[self.player]
        header = call_result(None, Client.parse_board, 0)
        hand = call_result(None, Client.parse_hand, 0)
        return conj(
            sent(self) == sent(old.self) + [line(me + ' ready for deal'),
                                            line(me + ' ready for cards')],
            calls_since(None, RECV) == 2,
            same(call_arg(None, Client.parse_board, 0, 'content'), call_result(None, RECV, 0)),
            self.board_num == header[0], self.dealer is header[1], self.vul is header[2],
            same(call_arg(None, Client.parse_cards, 0, 'content'), call_result(None, RECV, 1)),
            call_arg(None, Client.parse_cards, 0, 'player_name') == me,
            same(call_arg(None, Client.parse_hand, 0, 'content'),
                 call_result(None, Client.parse_cards, 0)),
            same(self.hand_set, hand[0]), same(self.hand_binary, hand[1]),
            self.player is old.self.player)


@contract('bridge_env.network_bridge.client.Client._connect', props=P + ['C20'])
class _client_connect:
    raises = {Exception: 'onlyif'}
    exc_havoc = True
    params = dict(self=FreshClientShape)
    modifies = ['self.connection_socket', 'self.opponent_team_name']
    note = ('the conforming side of the admission handshake (C20): raises when the table manager '
            'answers anything but the seating confirmation, or names another team for this side')

    def requires_not_yet_connected(self):
        return not self.connection_socket.connected

    # the connection is made before anything is sent or read: whatever happens afterwards, the
    # socket the messages go through is the one that was connected
    def excensures_connected_first(self):
        return self.connection_socket.connected

    def ensures_connected(self):
        return conj(self.connection_socket.connected, self._socket is self.connection_socket)

    # C20/C11: the three messages of the handshake, in order, with the client's own seat, team and
    # protocol version 18; the opponents' name is the other side's name of the Teams message
    def ensures_handshake_as_the_protocol_prescribes(self, old, frame):
        me = self.player
        teams = call_result(None, Client.parse_team_names, 0)
        mine, theirs = (teams[0], teams[1]) if G.SIDE[me] is Pair.NS else (teams[1], teams[0])
        return conj(
            sent(self) == sent(old.self) + [
                line(PR.enc_connect(self.team_name, me, 18)),
                line(G.FORMAL[me] + ' ready for teams'),
                line(G.FORMAL[me] + ' ready to start')],
            calls_since(None, RECV) == 2,
            same(call_arg(None, Client.parse_team_names, 0, 'content'), call_result(None, RECV, 1)),
            mine == self.team_name,
            self.opponent_team_name == theirs,
            self.player is old.self.player, self.team_name == old.self.team_name)

    # the seating confirmation must be for this seat and this team (either spelling)
    def ensures_seated_as_asked(self, old, frame):
        me = G.FORMAL[self.player]
        reply = frame.reply
        return disj(reply == me + ' ' + self.team_name + ' seated',
                    reply == me + ' ("' + self.team_name + '") seated')


def _run_inv(self):
    return client_inv(self)


def _one_board_per_iteration(self, iter, contract, message):
    """C11 (the client completes what the server completes): each pass of the loop is one board:
    the deal, the auction, the play exactly when the auction was not passed out -- with the
    contract the auction returned -- and then exactly one further message is read."""
    played = calls_since(iter, Client.playing_phase)
    return conj(
        calls_since(iter, Client._deal) == 1,
        calls_since(iter, Client.bidding_phase) == 1,
        same(contract, call_result(iter, Client.bidding_phase, 0)),
        played == (0 if passed_out(contract) else 1),
        played == 0 or same(call_arg(iter, Client.playing_phase, 0, 'contract'), contract),
        calls_since(iter, RECV) == 1,
        same(message, call_result(iter, RECV, 0)))


@contract('bridge_env.network_bridge.client.Client.run', props=P)
class _client_run:
    raises = {Exception: 'onlyif', AssertionError: 'onlyif', ValueError: 'onlyif'}
    exc_havoc = True
    params = dict(self=FreshClientShape)
    modifies = ['self']

    def requires_not_yet_connected(self):
        return not self.connection_socket.connected

    loops = {0: LoopContract(invariant=_run_inv,
                             havoc=dict(message=DecodedStr(), board_num=Int(0)),
                             havoc_heap={'self': ClientShape},
                             body_ensures=dict(one_board_per_iteration=_one_board_per_iteration))}
    note = ('the session ends normally only on "End of session"; every other message between '
            'boards must be "Start of board" in any letter case')

    def ensures_stops_at_end_of_session(self, frame):
        return frame.message == 'End of session'
